use cardinalsin::ingester::ChunkMetadata;
use cardinalsin::metadata::{
    LocalMetadataClient, MetadataClient, ObjectStoreMetadataClient, ObjectStoreMetadataConfig,
    TimeRange,
};
use cardinalsin::sharding::{ShardMetadata, ShardState};
use object_store::memory::InMemory;
use std::sync::Arc;

fn meta(path: &str, min: i64, max: i64) -> ChunkMetadata {
    ChunkMetadata { path: path.to_string(), min_timestamp: min, max_timestamp: max, row_count: 1, size_bytes: 1 }
}
async fn paths(c: &dyn MetadataClient) -> Vec<String> {
    let mut v: Vec<String> = c.get_chunks(TimeRange::new(0, 1_000_000)).await.unwrap().into_iter().map(|e| e.chunk_path).collect();
    v.sort();
    v
}
fn s3() -> ObjectStoreMetadataClient {
    ObjectStoreMetadataClient::new(Arc::new(InMemory::new()), ObjectStoreMetadataConfig::default())
}

/// S1: complete_compaction with an unregistered target
#[tokio::test]
async fn s1_complete_compaction_unregistered_target() {
    let l = LocalMetadataClient::new();
    let s = s3();
    for c in [&l as &dyn MetadataClient, &s] {
        c.register_chunk("a", &meta("a", 1, 2)).await.unwrap();
        c.register_chunk("b", &meta("b", 3, 4)).await.unwrap();
    }
    let rl = l.complete_compaction(&["a".to_string(), "b".to_string()], "t").await;
    let rs = s.complete_compaction(&["a".to_string(), "b".to_string()], "t").await;
    println!("local: {:?} -> {:?}; s3: {:?} -> {:?}", rl.is_ok(), paths(&l).await, rs.is_ok(), paths(&s).await);
    assert_eq!(paths(&l).await, paths(&s).await);
}

/// S2: complete_compaction_with_target whose target path is one of the sources
#[tokio::test]
async fn s2_target_is_a_source() {
    let l = LocalMetadataClient::new();
    let s = s3();
    for c in [&l as &dyn MetadataClient, &s] {
        c.register_chunk("a", &meta("a", 1, 2)).await.unwrap();
        c.register_chunk("b", &meta("b", 3, 4)).await.unwrap();
        let r = c.complete_compaction_with_target(&["a".to_string(), "b".to_string()], &meta("a", 1, 4)).await;
        println!("result ok={}", r.is_ok());
    }
    println!("local {:?} s3 {:?}", paths(&l).await, paths(&s).await);
    assert_eq!(paths(&l).await, paths(&s).await);
}

/// S6: timestamps in the last hour before i64::MAX
#[tokio::test]
async fn s6_i64_max() {
    let l = LocalMetadataClient::new();
    l.register_chunk("z", &meta("z", i64::MAX - 10, i64::MAX)).await.unwrap();
}

/// S3: LocalMetadataClient::update_shard_metadata under real parallelism
#[tokio::test(flavor = "multi_thread", worker_threads = 4)]
async fn s3_local_generation_race() {
    let mut double_wins = 0;
    for round in 0..300 {
        let c = Arc::new(LocalMetadataClient::new());
        let sh = ShardMetadata { shard_id: "s".into(), generation: 0, key_range: (vec![0], vec![255]), replicas: vec![], state: ShardState::Active, min_time: 0, max_time: 0 };
        c.update_shard_metadata("s", &sh, 0).await.unwrap();
        let barrier = Arc::new(std::sync::Barrier::new(4));
        let mut hs = Vec::new();
        for i in 0..4 {
            let c = c.clone();
            let mut m = sh.clone();
            m.min_time = i;
            let barrier = barrier.clone();
            hs.push(std::thread::spawn(move || {
                barrier.wait();
                futures::executor::block_on(c.update_shard_metadata("s", &m, 1)).is_ok()
            }));
        }
        let wins = hs.into_iter().map(|h| h.join().unwrap()).filter(|w| *w).count();
        if wins > 1 {
            double_wins += 1;
            println!("round {round}: {wins} updates based on generation 1 succeeded");
        }
    }
    assert_eq!(double_wins, 0);
}
