//! An object larger than the disk tier's region (min(64 MiB, l2_size)) read through the caching store.
use bytes::Bytes;
use cardinalsin::query::{CacheConfig, CachedObjectStore, TieredCache};
use object_store::memory::InMemory;
use object_store::path::Path;
use object_store::{ObjectStore, PutPayload};
use std::sync::Arc;

#[tokio::test(flavor = "multi_thread", worker_threads = 2)]
async fn object_larger_than_the_disk_tier() {
    let dir = tempfile::tempdir().unwrap();
    let cache = Arc::new(
        TieredCache::new(CacheConfig { l1_size: 20_000, l2_size: 64 << 10, l2_dir: Some(dir.path().to_string_lossy().to_string()) })
            .await
            .unwrap(),
    );
    let inner = Arc::new(InMemory::new());
    let cs = CachedObjectStore::new(inner.clone(), cache.clone());
    let big: Vec<u8> = (0..(2usize << 20) + 4096).map(|i| (i % 251) as u8).collect();
    let small: Vec<u8> = (0..3000usize).map(|i| (i % 13) as u8).collect();
    inner.put(&Path::from("t/big.parquet"), PutPayload::from(Bytes::from(big.clone()))).await.unwrap();
    inner.put(&Path::from("t/small.parquet"), PutPayload::from(Bytes::from(small.clone()))).await.unwrap();
    for round in 0..3 {
        let got = cs.get(&Path::from("t/big.parquet")).await.unwrap().bytes().await.unwrap();
        assert_eq!(got.len(), big.len(), "round {round}");
        assert!(got.as_ref() == &big[..], "round {round}: bytes differ");
        tokio::time::sleep(std::time::Duration::from_millis(300)).await;
        let got = cs.get(&Path::from("t/small.parquet")).await.unwrap().bytes().await.unwrap();
        assert!(got.as_ref() == &small[..], "round {round}: small differs");
        tokio::time::sleep(std::time::Duration::from_millis(300)).await;
    }
    println!("stats: {:?}", cache.stats());
}
