//! Suspected defect of the UNMODIFIED tree (C15 / C03): a compaction cycle that runs while a
//! shard is in its dual-write phase merges the old shard's L0 chunks with the dual-write copies
//! under the new shards (same hour bucket, all level 0) into one compacted chunk whose path
//! names no shard. The query node recognises copies only by the new shard id in the chunk
//! path, so after the merge every dual-written row is returned twice.
//!
//! Real Ingester (dual-write path), real catalog (LocalMetadataClient), real QueryNode; the split
//! state is set through the real start_split / update_split_progress.

use arrow::array::{Float64Array, Int64Array, RecordBatch, StringArray};
use arrow::datatypes::{DataType, Field, Schema};
use cardinalsin::ingester::{Ingester, IngesterConfig};
use cardinalsin::metadata::{LocalMetadataClient, MetadataClient};
use cardinalsin::query::{QueryConfig, QueryNode};
use cardinalsin::schema::MetricSchema;
use cardinalsin::compactor::{Compactor, CompactorConfig};
use cardinalsin::sharding::{HotShardConfig, ShardKey, ShardMonitor, SplitPhase};
use cardinalsin::StorageConfig;
use object_store::memory::InMemory;
use std::sync::Arc;


fn batch(ts: Vec<i64>, vals: Vec<f64>) -> RecordBatch {
    let schema = Arc::new(Schema::new(vec![
        Field::new("timestamp", DataType::Int64, false),
        Field::new("metric_name", DataType::Utf8, false),
        Field::new("value_f64", DataType::Float64, true),
    ]));
    let n = ts.len();
    RecordBatch::try_new(
        schema,
        vec![
            Arc::new(Int64Array::from(ts)),
            Arc::new(StringArray::from(vec!["cpu"; n])),
            Arc::new(Float64Array::from(vals)),
        ],
    )
    .unwrap()
}

async fn count_and_sum(node: &QueryNode) -> (i64, f64) {
    let out = node
        .query("SELECT count(*) AS c, sum(value_f64) AS s FROM metrics")
        .await
        .unwrap();
    let b = &out[0];
    let c = b
        .column(0)
        .as_any()
        .downcast_ref::<Int64Array>()
        .unwrap()
        .value(0);
    let s = b
        .column(1)
        .as_any()
        .downcast_ref::<Float64Array>()
        .unwrap()
        .value(0);
    (c, s)
}

#[tokio::test]
async fn compaction_during_dual_write_keeps_reads_exact() {
    let store = Arc::new(InMemory::new());
    let metadata: Arc<dyn MetadataClient> = Arc::new(LocalMetadataClient::new());
    let storage = StorageConfig::default();

    let ingester = Ingester::new(
        IngesterConfig {
            flush_row_count: 1, // every accepted batch is flushed at once
            ..Default::default()
        },
        store.clone(),
        metadata.clone(),
        storage.clone(),
        MetricSchema::default_metrics(),
    );
    let node = QueryNode::new(
        QueryConfig::default(),
        store.clone(),
        metadata.clone(),
        storage.clone(),
    )
    .await
    .unwrap();

    // all rows lie in the last few minutes (a query without a time bound reads the last hour)
    #[allow(non_snake_case)]
    let BASE: i64 = chrono::Utc::now().timestamp_nanos_opt().unwrap() - 600_000_000_000;

    // the shard id the ingester derives for these batches (tenant 0, metric "cpu")
    let key = ShardKey::new(0, "cpu", BASE).to_bytes();
    let shard_id = format!(
        "shard-{:x}",
        u64::from_be_bytes(key[0..8].try_into().unwrap())
    );

    // 1. before the split: two rows, one query
    ingester
        .write(batch(vec![BASE + 1, BASE + 2], vec![1.0, 2.0]))
        .await
        .unwrap();
    assert_eq!(count_and_sum(&node).await, (2, 3.0), "before the split");

    // 2. the split enters its dual-write phase
    let split = BASE + 100;
    metadata
        .start_split(
            &shard_id,
            vec!["newshard-lower-0001".into(), "newshard-upper-0002".into()],
            split.to_be_bytes().to_vec(),
        )
        .await
        .unwrap();
    metadata
        .update_split_progress(&shard_id, 0.0, SplitPhase::DualWrite)
        .await
        .unwrap();

    // 3. a dual-written batch: one row below, one at, one above the split point
    ingester
        .write(batch(
            vec![BASE + 50, split, BASE + 150],
            vec![10.0, 20.0, 30.0],
        ))
        .await
        .unwrap();
    let copies_a = metadata
        .get_chunks_for_shard("newshard-lower-0001")
        .await
        .unwrap();
    let copies_b = metadata
        .get_chunks_for_shard("newshard-upper-0002")
        .await
        .unwrap();
    assert_eq!(
        copies_a.iter().map(|c| c.row_count).sum::<u64>(),
        1,
        "dual-write copy below the split point"
    );
    assert_eq!(
        copies_b.iter().map(|c| c.row_count).sum::<u64>(),
        2,
        "dual-write copies at/above the split point"
    );

    assert_eq!(count_and_sum(&node).await, (5, 63.0), "before the compaction cycle");

    // 4. one compaction cycle while the split is still in its dual-write phase
    let compactor = Compactor::new(
        CompactorConfig {
            l0_merge_threshold: 2,
            sharding_enabled: false,
            ..Default::default()
        },
        store.clone(),
        metadata.clone(),
        storage.clone(),
        Arc::new(ShardMonitor::new(HotShardConfig::default())),
    );
    compactor.run_compaction_cycle().await.unwrap();

    // 5. during the dual-write phase: five ingested rows, each once
    assert_eq!(
        count_and_sum(&node).await,
        (5, 63.0),
        "during dual-write every ingested row must be returned exactly once"
    );
}
