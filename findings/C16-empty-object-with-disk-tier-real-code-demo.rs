//! A zero-length object read through the caching store when the disk tier is configured.
use bytes::Bytes;
use cardinalsin::query::{CacheConfig, CachedObjectStore, TieredCache};
use object_store::memory::InMemory;
use object_store::path::Path;
use object_store::{ObjectStore, PutPayload};
use std::sync::Arc;

#[tokio::test(flavor = "multi_thread", worker_threads = 2)]
async fn empty_object_with_disk_tier() {
    let dir = tempfile::tempdir().unwrap();
    let cache = Arc::new(
        TieredCache::new(CacheConfig { l1_size: 1 << 20, l2_size: 1 << 20, l2_dir: Some(dir.path().to_string_lossy().to_string()) })
            .await
            .unwrap(),
    );
    let inner = Arc::new(InMemory::new());
    let cs = CachedObjectStore::new(inner.clone(), cache.clone());
    inner.put(&Path::from("t/empty.parquet"), PutPayload::from(Bytes::new())).await.unwrap();
    inner.put(&Path::from("t/small.parquet"), PutPayload::from(Bytes::from_static(b"abc"))).await.unwrap();
    for round in 0..2 {
        let got = cs.get(&Path::from("t/empty.parquet")).await.unwrap().bytes().await.unwrap();
        assert_eq!(got.len(), 0, "round {round}");
        let got = cs.get(&Path::from("t/small.parquet")).await.unwrap().bytes().await.unwrap();
        assert_eq!(got.as_ref(), b"abc", "round {round}");
    }
}
