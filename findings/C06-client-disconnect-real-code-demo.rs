//! A client disconnect drops its request handler's future. If that request happened to be running the
//! threshold flush, the rows of *other*, already acknowledged requests that it had taken out of the buffer
//! must not vanish.

use arrow_array::{Int64Array, RecordBatch, StringArray};
use arrow_schema::{DataType, Field, Schema};
use async_trait::async_trait;
use cardinalsin::api::ingest::flight_ingest::{batch_to_flight_data, FlightIngestService};
use cardinalsin::ingester::{Ingester, IngesterConfig};
use cardinalsin::metadata::{LocalMetadataClient, MetadataClient};
use cardinalsin::schema::MetricSchema;
use cardinalsin::StorageConfig;
use futures::stream::BoxStream;
use object_store::memory::InMemory;
use object_store::path::Path;
use object_store::{
    GetOptions, GetResult, ListResult, MultipartUpload, ObjectMeta, ObjectStore, PutMultipartOpts,
    PutOptions, PutPayload, PutResult,
};
use std::sync::atomic::{AtomicBool, Ordering};
use std::sync::Arc;
use tokio::sync::Notify;

/// Holds the first parquet upload until released.
#[derive(Debug)]
struct Gated {
    inner: InMemory,
    hold: AtomicBool,
    reached: Notify,
    release: Notify,
}
impl std::fmt::Display for Gated {
    fn fmt(&self, f: &mut std::fmt::Formatter<'_>) -> std::fmt::Result {
        write!(f, "Gated")
    }
}
#[async_trait]
impl ObjectStore for Gated {
    async fn put_opts(&self, l: &Path, p: PutPayload, o: PutOptions) -> object_store::Result<PutResult> {
        if l.as_ref().ends_with(".parquet") && self.hold.swap(false, Ordering::SeqCst) {
            self.reached.notify_one();
            self.release.notified().await;
        }
        self.inner.put_opts(l, p, o).await
    }
    async fn put_multipart_opts(&self, l: &Path, o: PutMultipartOpts) -> object_store::Result<Box<dyn MultipartUpload>> {
        self.inner.put_multipart_opts(l, o).await
    }
    async fn get_opts(&self, l: &Path, o: GetOptions) -> object_store::Result<GetResult> {
        self.inner.get_opts(l, o).await
    }
    async fn delete(&self, l: &Path) -> object_store::Result<()> {
        self.inner.delete(l).await
    }
    fn list(&self, p: Option<&Path>) -> BoxStream<'_, object_store::Result<ObjectMeta>> {
        self.inner.list(p)
    }
    async fn list_with_delimiter(&self, p: Option<&Path>) -> object_store::Result<ListResult> {
        self.inner.list_with_delimiter(p).await
    }
    async fn copy(&self, a: &Path, b: &Path) -> object_store::Result<()> {
        self.inner.copy(a, b).await
    }
    async fn copy_if_not_exists(&self, a: &Path, b: &Path) -> object_store::Result<()> {
        self.inner.copy_if_not_exists(a, b).await
    }
}

fn batch(ids: &[i64]) -> RecordBatch {
    let schema = Arc::new(Schema::new(vec![
        Field::new("timestamp", DataType::Int64, false),
        Field::new("metric_name", DataType::Utf8, false),
        Field::new("id", DataType::Int64, false),
    ]));
    let now = chrono::Utc::now().timestamp_nanos_opt().unwrap();
    RecordBatch::try_new(
        schema,
        vec![
            Arc::new(Int64Array::from(ids.iter().map(|i| now + i).collect::<Vec<_>>())),
            Arc::new(StringArray::from(ids.iter().map(|_| "cpu").collect::<Vec<_>>())),
            Arc::new(Int64Array::from(ids.to_vec())),
        ],
    )
    .unwrap()
}

#[tokio::test]
async fn rows_acknowledged_to_one_client_survive_the_disconnect_of_another() {
    let store = Arc::new(Gated { inner: InMemory::new(), hold: AtomicBool::new(true), reached: Notify::new(), release: Notify::new() });
    let meta = Arc::new(LocalMetadataClient::new());
    let mut cfg = IngesterConfig::default();
    cfg.wal.enabled = false;
    cfg.flush_row_count = 4;
    let ing = Arc::new(Ingester::new(cfg, store.clone(), meta.clone(), StorageConfig::default(), MetricSchema::default_metrics()));
    let svc = Arc::new(FlightIngestService::new(ing.clone()));

    // client A: three rows, acknowledged, buffered
    let n = svc.process_stream(batch_to_flight_data(&batch(&[1, 2, 3])).unwrap().into_iter()).await.unwrap();
    assert_eq!(n, 3);

    // client B: one more row reaches the threshold; its request runs the flush of all four rows ...
    let svc2 = svc.clone();
    let b = tokio::spawn(async move { svc2.process_stream(batch_to_flight_data(&batch(&[4])).unwrap().into_iter()).await });
    store.reached.notified().await;
    // ... and client B disconnects while the upload is in flight: the server drops the handler future
    b.abort();
    let _ = b.await;
    store.release.notify_one();
    // give a flush that is still running (if the server let it run on) time to finish
    tokio::time::sleep(std::time::Duration::from_millis(300)).await;

    // graceful shutdown: flush whatever is buffered
    ing.shutdown_token().cancel();
    ing.run_flush_timer().await;

    let mut stored: Vec<i64> = Vec::new();
    for c in meta.list_chunks().await.unwrap() {
        let bytes = store.inner.get(&Path::from(c.chunk_path.as_str())).await.unwrap().bytes().await.unwrap();
        for rb in parquet::arrow::arrow_reader::ParquetRecordBatchReaderBuilder::try_new(bytes).unwrap().build().unwrap() {
            let rb = rb.unwrap();
            let ids = rb.column_by_name("id").unwrap().as_any().downcast_ref::<Int64Array>().unwrap().clone();
            stored.extend(ids.values().iter());
        }
    }
    stored.sort();
    for id in [1, 2, 3] {
        assert!(stored.contains(&id), "row {id} was acknowledged to client A but is in no registered chunk after shutdown (stored ids: {stored:?})");
    }
}
