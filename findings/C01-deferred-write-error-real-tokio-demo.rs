//! Real tokio::fs, real disk error: the kernel rejects writes beyond RLIMIT_FSIZE (EFBIG once
//! SIGXFSZ is ignored). An append that returned Ok (EveryWrite sync mode) must be recoverable.

use arrow_array::{Int64Array, RecordBatch, StringArray};
use arrow_schema::{DataType, Field, Schema};
use cardinalsin::ingester::{WalConfig, WalSyncMode, WriteAheadLog};
use std::sync::Arc;

#[repr(C)]
struct RLimit {
    cur: u64,
    max: u64,
}
extern "C" {
    fn setrlimit(resource: i32, rlim: *const RLimit) -> i32;
    fn getrlimit(resource: i32, rlim: *mut RLimit) -> i32;
    fn signal(signum: i32, handler: usize) -> usize;
}
const RLIMIT_FSIZE: i32 = 1;
const SIGXFSZ: i32 = 25;
const SIG_IGN: usize = 1;

fn batch(i: i64) -> RecordBatch {
    let schema = Arc::new(Schema::new(vec![
        Field::new("timestamp", DataType::Int64, false),
        Field::new("metric_name", DataType::Utf8, false),
        Field::new("id", DataType::Int64, false),
    ]));
    RecordBatch::try_new(
        schema,
        vec![
            Arc::new(Int64Array::from(vec![1_700_000_000_000_000_000 + i])),
            Arc::new(StringArray::from(vec!["cpu"])),
            Arc::new(Int64Array::from(vec![i])),
        ],
    )
    .unwrap()
}

#[tokio::test(flavor = "multi_thread", worker_threads = 2)]
async fn acknowledged_append_is_recoverable_after_a_rejected_write() {
    unsafe { signal(SIGXFSZ, SIG_IGN) };
    let dir = tempfile::tempdir().unwrap();
    let cfg = WalConfig {
        wal_dir: dir.path().to_path_buf(),
        max_segment_size: 1 << 30,
        sync_mode: WalSyncMode::EveryWrite,
        enabled: true,
    };
    let mut wal = WriteAheadLog::open(cfg.clone()).await.unwrap();
    let mut old = RLimit { cur: 0, max: 0 };
    unsafe { getrlimit(RLIMIT_FSIZE, &mut old) };
    // the "disk" holds 3000 bytes per file (an entry is ~1.2 KB)
    let small = RLimit { cur: 3000, max: old.max };
    assert_eq!(unsafe { setrlimit(RLIMIT_FSIZE, &small) }, 0);
    let mut acked = Vec::new();
    let mut outcomes = Vec::new();
    for i in 0..6 {
        match wal.append(&batch(i)).await {
            Ok(seq) => {
                acked.push(seq);
                outcomes.push(format!("append {i} -> Ok(seq {seq})"));
            }
            Err(e) => outcomes.push(format!("append {i} -> Err({e})")),
        }
    }
    assert_eq!(unsafe { setrlimit(RLIMIT_FSIZE, &old) }, 0);
    drop(wal);
    let wal2 = WriteAheadLog::open(cfg).await.unwrap();
    let recovered: Vec<u64> = wal2.read_entries_after(0).unwrap().iter().map(|e| e.seq).collect();
    let lost: Vec<&u64> = acked.iter().filter(|s| !recovered.contains(s)).collect();
    assert!(
        lost.is_empty(),
        "appends acknowledged with Ok but not recoverable after reopening: seqs {lost:?}\n  outcomes: {outcomes:#?}\n  recovered: {recovered:?}"
    );
}
