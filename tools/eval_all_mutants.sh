#!/bin/bash
# tools/eval_all_mutants.sh [out.md]
# Re-evaluates every stored seeded change against the *current* checks, in a scratch copy of /verif and a
# scratch worktree of /repo (nothing in /repo or /verif is touched). Writes a table: id, property, exit, signatures.
set -u
OUT="${1:-/verif/seeded/RESULTS.md}"
W=/tmp/evalmut; rm -rf $W; mkdir -p $W
git -C /repo worktree remove --force $W/repo 2>/dev/null
git -C /repo worktree add --detach $W/repo HEAD >/dev/null 2>&1 || exit 2
rsync -a --exclude target --exclude replays --exclude evidence /verif/ $W/verif/
mkdir -p $W/verif/evidence
sed -i "s|path = \"/repo\"|path = \"$W/repo\"|" $W/verif/sim/Cargo.toml
HEAD=$(git -C /repo log --format=%h -1)
{ echo "# Seeded changes re-evaluated against the current checks"; echo; echo "repo commit $HEAD, verif commit $(git -C /verif log --format=%h -1), tier as recorded in each meta.json (quick unless stated), VERIF_SEED default; C09-r4m3 and C01-r6m1 are recorded as not detected (see their meta.json)"; echo; echo "| seeded change | property | exit | signatures (runs) |"; echo "|---|---|---|---|"; } > "$OUT.tmp"
MISSED=0
for d in /verif/seeded/*/; do
  id=$(basename $d); [ -f $d/meta.json ] || continue
  if [ -n "${EVAL_FILTER:-}" ] && ! [[ "$id" =~ $EVAL_FILTER ]]; then continue; fi   # EVAL_FILTER='^(C09|C10)-' restricts the run (give another out file then)
  prop=$(python3 -c "import json;print(json.load(open('$d/meta.json'))['detected_by']['check'].split()[1])")
  ( cd $W/repo && git checkout -q -- . && git apply $d/patch.diff ) || { echo "| $id | $prop | patch does not apply | |" >> "$OUT.tmp"; continue; }
  tier=$(python3 -c "import json;print(json.load(open('$d/meta.json'))['detected_by']['check'].split()[2])")
  out=$(cd $W/verif && VERIF_REPLAY_DIR=$W/replays ./check $prop $tier 2>&1); rc=$?
  sigs=$(echo "$out" | grep -A1 "signature:" | sed -n 's/.*signature: \(.*\)/\1/p;s/.*runs with this signature: \(.*\)/(\1)/p' | paste -sd' ' | cut -c1-300)
  [ $rc -eq 1 ] || MISSED=$((MISSED+1))
  echo "| $id | $prop ($tier) | $rc | $sigs |" >> "$OUT.tmp"
  echo "$id $prop exit=$rc"
done
( cd $W/repo && git checkout -q -- . )
{ echo; echo "not detected (exit != 1): $MISSED"; } >> "$OUT.tmp"
mv "$OUT.tmp" "$OUT"
git -C /repo worktree remove --force $W/repo; rm -rf $W
echo "EVAL DONE missed=$MISSED"
