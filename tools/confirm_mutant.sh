#!/bin/bash
# tools/confirm_mutant.sh <worktree> <mutant-dir> 
# Confirms in a scratch worktree: with the patch the project builds, the existing suite passes and the demo fails;
# without the patch the demo passes. Result in <mutant-dir>/confirm.log
set -u
WT="$1"; MD="$2"
export CARGO_TARGET_DIR=/tmp/mut-target CARGO_NET_OFFLINE=true
LOG="$MD/confirm.log"; : > "$LOG"
cd "$WT" || exit 2
git checkout -q -- . ; git clean -fdq tests/ 2>/dev/null
DEMO=$(ls "$MD"/*.rs | head -1); NAME=verifdemo_$(basename "$MD")_$(basename "$(dirname "$(dirname "$MD")")" | tr -d '-')
cp "$DEMO" "tests/$NAME.rs"
echo "### demo WITHOUT the change" >> "$LOG"
cargo nextest run --offline --test "$NAME" --no-fail-fast 2>&1 | tail -4 >> "$LOG"
git apply "$MD/patch.diff" || { echo "PATCH DOES NOT APPLY" >> "$LOG"; exit 1; }
echo "### existing suite WITH the change (test_full_split_execution excluded: always times out)" >> "$LOG"
cargo nextest run --offline --workspace --no-fail-fast -E "not test(test_full_split_execution) and not binary($NAME)" 2>&1 | tail -4 >> "$LOG"
echo "### demo WITH the change" >> "$LOG"
cargo nextest run --offline --test "$NAME" --no-fail-fast 2>&1 | tail -6 >> "$LOG"
git checkout -q -- . ; rm -f "tests/$NAME.rs"
echo "### done" >> "$LOG"
