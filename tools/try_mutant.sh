#!/bin/bash
# tools/try_mutant.sh <patch.diff> <PROP> [tier]   apply a seeded change to /repo, run the check, undo the change
set -u
PATCH="$1"; PROP="$2"; TIER="${3:-quick}"
cd /repo || exit 2
if ! git diff --quiet; then echo "repo has uncommitted changes" >&2; exit 2; fi
if ! git apply "$PATCH"; then echo "patch does not apply" >&2; exit 2; fi
cd /verif
# the run below is against a changed repository: its evidence file must not replace the real one
SAVE=$(mktemp); [ -f "evidence/$PROP.json" ] && cp "evidence/$PROP.json" "$SAVE"
VERIF_REPLAY_DIR=/tmp/verif-mutant-replays ./check "$PROP" "$TIER" 2>&1 | grep -E "VIOLATION|signature:|detail:|SUMMARY|KNOWN|harness" | cut -c1-300
RC=${PIPESTATUS[0]}
[ -s "$SAVE" ] && cp "$SAVE" "evidence/$PROP.json"; rm -f "$SAVE"
git -C /repo checkout -- . 
echo "exit=$RC"
