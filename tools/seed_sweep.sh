#!/bin/bash
# tools/seed_sweep.sh <first-seed> <last-seed> [tier]   (SWEEP_IDS="C07 C18" restricts the properties) run every claimed check at several VERIF_SEED values; lists every non-zero exit
cd "$(dirname "$0")/.." || exit 2
TIER="${3:-quick}"
# inside `vp run --with-repo` use the repository snapshot (so that edits to /repo made meanwhile do not leak in)
if [ -n "${VP_RUN_REPO:-}" ] && [ -d "$VP_RUN_REPO" ]; then sed -i "s|path = \"/repo\"|path = \"$VP_RUN_REPO\"|" sim/Cargo.toml; echo "using repo snapshot $VP_RUN_REPO"; fi
IDS="${SWEEP_IDS:-$(python3 -c "import json; print(' '.join(c['property_id'] for c in json.load(open('MANIFEST.json'))['checks']))")}"
BAD=0
for s in $(seq "$1" "$2"); do
  for id in $IDS; do
    out=$(VERIF_SEED=$s VERIF_REPLAY_DIR=/tmp/seed-sweep-replays ./check "$id" "$TIER" 2>&1); rc=$?
    if [ $rc -ne 0 ]; then BAD=$((BAD+1)); echo "seed=$s $id exit=$rc"; echo "$out" | grep -E "VIOLATION|signature|detail|HARNESS|harness" | head -8 | cut -c1-400; fi
  done
  echo "seed $s done (bad so far: $BAD)"
done
echo "SWEEP DONE bad=$BAD"
