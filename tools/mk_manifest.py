#!/usr/bin/env python3
"""Regenerates /verif/MANIFEST.json from the table below (keeps it schema-valid)."""
import json, os, subprocess

HERE = os.path.dirname(os.path.dirname(os.path.abspath(__file__)))

# id -> (engine, level, technique, level text, level note, design ref)
CLAIMED = {
    "C02": ("meta-cas", "exploration",
            "deterministic simulation: seeded request-level interleaving of real catalog clients + store fault injection; version-history refinement against a sequential catalog model",
            "Seeded search over interleavings (object-store-request granularity) of 2..4 real ObjectStoreMetadataClients with injected request failures (before/after effect) and delays; every catalog.json version ever written is checked to be exactly one model step of exactly one in-flight operation, with index/map agreement on every version. Sampling, not proof: the quantifier is all schedules x histories, which only a search can approach.",
            "Trusts object_store::memory::InMemory as the model of S3 conditional PUT; a lost response (fail-after-effect) may legitimately leave one applied version behind a failed call.",
            "DESIGN.md section 3 C02"),
    "C11": ("query", "exploration",
            "deterministic simulation's storage seam as the observation instrument: generated statement grammar x entry points (in-process HTTP router, direct, Flight-SQL prepare/analyze, streaming), per-issuer request log + full store digest + probe query after every statement",
            "Store populated through the real ingester; real QueryNode behind the real axum router called in-process (no sockets) plus the direct, prepare/analyze and streaming entry points; 8..16 statements per run from a grammar over COPY TO / CREATE [EXTERNAL] TABLE / VIEW / CTAS / DROP / INSERT / SET / EXPLAIN [ANALYZE] of those / multi-statement strings with targets among fresh paths, existing chunk paths and the catalog object, plus plain SELECT/EXPLAIN controls. After every statement: the query node's store handle issued no PUT/DELETE/COPY, the full object listing (path, size, ETag) is unchanged, a fixed probe query answers the same, and a mutating statement returned an error. Added during the build: the node's real Flight SQL service (tonic server as run_query_grpc_server assembles it) reached by arrow-flight's own client over an in-memory duplex - statement queries (GetFlightInfo + DoGet), statement updates (DoPut), prepared statements executed either way; CREATE / DROP SCHEMA and DATABASE, CREATE / DROP FUNCTION, CREATE INDEX, ALTER TABLE, DELETE / UPDATE / TRUNCATE, PREPARE / EXECUTE / DEALLOCATE in the grammar; the session's catalog / schema / table names and configuration options are compared after every statement.",
            "No schedule or fault dimension in this statement; the statement space is seeded generation, the simulator contributes the per-issuer request log.",
            "DESIGN.md section 3 C11"),
    "C15": ("query", "exploration",
            "deterministic simulation with reference model: real ingester under a real split state (dual-write / back-fill), generated batches around the split point incl. several series per (timestamp, metric); per-shard row-id routing oracle and reference-SQL read oracle",
            "Split state set through the real catalog operations under the shard id the ingester itself derives; accepted Int64-timestamp batches with rows below / at / above the split point; routing: ids under new shard A == accepted rows with ts < split, under B ts >= split (rows at the split point go to B), each once per accepted write, old shard holds every row; reads: 4..6 statement forms (with/without key columns, aggregates, GROUP BY, narrow window at the split point) through a real QueryNode during the split must equal the same SQL on a MemTable of the accepted rows.",
            "Int64 timestamps only (other types are rejected by the dual-write path, i.e. not accepted); one metric per batch.",
            "DESIGN.md section 3 C15"),
    "C16": ("query", "exploration",
            "deterministic simulation: seeded interleaving of concurrent readers at the backing store's requests (concurrent misses on the same / different keys), store faults on the miss path, swarm of tier sizes; byte-exact oracle against the backing store",
            "Real CachedObjectStore + TieredCache over the simulated store, growing write-once key set (80..200 objects, 1 B..6 KB) written in waves, 2..4 concurrent readers issuing whole / ranged / conditional reads and reads of never-written keys (sharing file names and prefixes with written ones), L1 from 300 B (evict on every insert) to 8 MB, no disk tier in the seeded phase, foyer disk tier in a thorough-only phase; whenever a read returns bytes they equal the backing store's object (range), a missing key fails, a wrong If-Match fails; injected backing-store failures may fail a read but never produce wrong bytes. Added during the build: response bodies that break part-way (prefix, then error) and readers that go away (a third of the runs drop one read future in eight at a seeded point). Later: get_ranges with nested / touching / out-of-order ranges, a 60-virtual-second bound on every read, writes that fail before / after taking effect, create-only uploads incl. a refused re-upload of an existing name (the model is what the backing store holds after each attempt), one run in ten with objects of 2..5 MiB, date-conditional reads (If-Modified-Since / If-Unmodified-Since).",
            "Write-once objects; foyer's disk tier runs its own threads, so with L2 only the verdict (not the event log) is timing-independent.",
            "DESIGN.md section 3 C16"),
    "C18": ("query", "exploration",
            "deterministic simulation on the virtual clock: real ingester flushes interleaved by the scheduler with the real streaming executor's forwarding task; reference evaluation of the WHERE clause per flushed batch; independent evaluation of topic filters",
            "One streaming SQL subscription (legacy or topic-filtered) with a WHERE generated from the supported family (comparisons in both operand orders on string / nullable string / integer / float columns incl. literals of the other numeric type, AND, OR, nesting) plus 1..3 raw topic subscriptions with generated All/Shard/Tenant/Metrics/And/Or filters; batches of both timestamp types, nulls, 1..3 metrics, flushed after the subscription call returned with timestamps before and after the merge point but never inside the call's own interval. Delivered live rows == rows >= merge point satisfying the WHERE as evaluated by DataFusion on that batch, each once, batches in flush order; a topic subscription receives a batch iff the independently evaluated filter holds. Added during the build: all six operators on the nullable string column, timestamp predicates (integer and TIMESTAMP literal bounds, both operand orders), unsigned column, negative literals, exact float equality (0.1+0.2 vs 0.3), flush thresholds of 4 and 9 rows (several writes per flush), and in half of the runs the same statement as a live subscription over the node's WebSocket endpoint /api/v1/stream (real axum router + hyper + tungstenite over an in-memory duplex).",
            "Subscriber keeps up; merge-point ambiguity is kept out of the verdict by construction of the timestamps.",
            "DESIGN.md section 3 C18"),
    "C14": ("split", "fault_enumeration",
            "deterministic simulation with fault injection: systematic sweep failing / crashing the split at every object-store request (before and after its effect) followed by a fault-free resume driver, plus seeded nested interruptions; end-state, row-conservation and early-delete oracles",
            "Real ShardSplitter (five phases, virtual 10 s / 300 s sleeps) on both catalog backends over generated old-shard datasets with rows below / at / above the split point. Sweep: one run per (request index of the fault-free split) x {fail before, fail after, crash before, crash after}; random: 2..3 nested interruptions also inside resumed runs. Driver: resume while a progress file exists, else restart if the old shard is still Active, <= 6 fault-free attempts with fresh clients. Oracle: two Active new shards partitioning the old range at the split point, old shard PendingDeletion, no split state, no progress file, every old row in exactly one new shard on the correct side, no old-shard file or catalog entry removed before complete_split took effect; a resume failing on every fault-free attempt is the violation 'cannot be resumed'. Added during the build: wide schema with label and i64/f64/u64 value columns, extreme values, row-content oracle (floats bitwise), adversarial hash keys, store outages.",
            "Generation numbers, delete_after and clean-up leftovers are deliberately not compared; the in-memory catalog is treated as an external durable service.",
            "DESIGN.md section 3 C14"),
    "C04": ("query", "exploration",
            "deterministic simulation on the virtual clock with a reference model: real ingest -> (compaction) -> QueryNode pipeline, generated finite-window SELECTs, same SQL on a MemTable of all rows as the oracle",
            "Datasets placed minutes / hours / days around the virtual now and on hour-bucket edges, ingested through the real Ingester with drawn flush thresholds (different chunkings of the same rows), both catalogs, both timestamp types; 6..12 generated statements per run (both operand orders; integer, TIMESTAMP-literal and now()-relative bounds; BETWEEN, =, AND/OR/NOT nests, unions of windows, windows by negation, label predicates, projections, aggregates, GROUP BY), each cold and warm, before and after a real compaction cycle, tiny/large L1 cache, adaptive indexing on/off, primed or fresh node. Answer must equal the reference as a multiset of canonically rendered rows; an error or panic where the reference succeeds is a violation. Added during the build: a third of the runs query over a flaky store (failed requests, bodies breaking part-way): such a query may fail, a returned answer must still be exact. Later: rows before the epoch, chunks lacking the label column, repeated sub-expressions, statements planned on an empty binding, DISTINCT / HAVING, ORDER BY timestamp [DESC] [LIMIT n [OFFSET m]] and 'latest rows' statements compared as sequences, and - in 40 % of the runs - time passing (40 min / 2 h / 25 h), new rows arriving in a chunk of their own and every statement text sent again (now()-relative bounds move with the clock).",
            "Schedule dimension is small (queries run one at a time; C10 covers concurrency): the simulator contributes the clock, the history (chunking, compaction, cache temperature) and the model; predicate shapes are seeded generation. Single-partition plans only.",
            "DESIGN.md section 3 C04"),
    "C10": ("query", "exploration",
            "deterministic simulation: seeded interleaving of 2..4 concurrent QueryNode::query calls at every store request, at the pause point between table registration and planning and at a pause point in front of every statement planning; each answer compared with the reference evaluation of the same SQL",
            "One real QueryNode over chunks in distinct eras so that different windows select different chunk sets; concurrent tasks issue projections / aggregates / GROUP BY over one, several or no eras; every concurrent answer must equal the same SQL on a MemTable of all rows (= the statement run alone). Added during the build: a third of the runs also have queries whose client goes away (future dropped at a seeded await point, e.g. between binding the table and planning). Later: streaming subscriptions' historical phase among the concurrent calls, label predicates in half of the statements with label values that differ only in letter case or white space (a third of such statements the twin of another one), queries on behalf of two tenants. Eighth mutant round: every call of plan_read_only is a scheduling point (second named pause point, opted into by this scenario only), so a planning step that runs outside the registration lock can be overtaken by another request's re-binding.",
            "The service's multi-thread runtime is replaced by interleaving at await points (store requests + two named pause points): the logical re-binding race is reachable, hardware-level races inside DataFusion are not.",
            "DESIGN.md section 3 C10"),
    "C19": ("cluster", "exploration",
            "deterministic simulation: seeded membership/health/load histories on the virtual clock (real health-check task), route_write under a poll budget; eligibility, termination and assignment-stability oracles",
            "Real NodeRegistry + run_health_checks + ShardAssignment (all three strategies) + DistributedWriteRouter driven through generated histories (register, heartbeat loss, drain, load, remove, rebalance, time); every route_write must return within 1000 polls with a node whose snapshot can accept writes and that equals the assignment map's single entry, or an error; a shard may move only if its previous node cannot accept writes now or a rebalance ran since. Added during the build: eligibility judged against the history (removed / drained until re-registered / query-only / last reported load / silence beyond the timeout) instead of the registry's own fields, heartbeat timeouts of 30, 8, 5 and 4 s, a clause on the registry's own status at routing time (Suspected / Failed / Draining nodes must not be returned), a panic of the health-check task is a violation.",
            "Events are applied one at a time; lock-level races on a multi-thread runtime are not explored.",
            "DESIGN.md section 3 C19"),
    "C03": ("compaction", "exploration",
            "deterministic simulation with fault injection: 1..2 real Compactor::run loops interleaved at request level with store faults, crashes/restarts and stalls past the lease TTL; row-id conservation checked on every catalog version and at quiescence",
            "Generated datasets (levels 0..2, 1..3 buckets), both catalog backends, two compactors with independent 60 s catalog caches (stale candidate lists), lease expiry under a stalled live holder, crash at any request; on every catalog.json version every original row is reachable through a listed chunk whose file exists at that instant; after all compactors stopped the reachable multiset equals the original exactly; every merge's target is one level above its highest source. Added during the build: row-content oracle (value for value, floats bitwise) with extreme values and adversarial hash keys; hour-straddling chunks; merged chunk must sit above every level its rows came from on both catalog backends; store outages.",
            "Rows inside retention; homogeneous schema per dataset; quiescence = all compactor loops stopped (cycle in flight allowed to finish fault-free).",
            "DESIGN.md section 3 C03"),
    "C20": ("compaction", "exploration",
            "deterministic simulation: repeated real compaction cycles on generated static datasets/configurations in virtual time; proved cycle bound as the convergence oracle plus version-history level checks",
            "N+2 calls of run_compaction_cycle (N = initial chunk count; each merge replaces >= 2 chunks by 1, so some cycle among the first N must change nothing) on datasets with random level mixes, sizes, buckets and thresholds, both backends: a cycle that changes nothing must be followed only by cycles that change nothing; candidate groups of one cycle are pairwise disjoint; every merge in the version history retires chunks of one level; no path's level ever decreases. Added during the build: hour-straddling chunks, merge threshold 1, levels observed on the in-memory backend through a guarded read-only observer, rule 'rows never move down a level'.",
            "Static dataset; levels observable only on the object-store backend; configuration space sampled, not enumerated.",
            "DESIGN.md section 3 C20"),
    "C09": ("compaction", "exploration",
            "deterministic simulation: real Compactor loop + real QueryNode sharing a pin registry, request-level interleaving of GC with queries, compactor crash/restart, wall-clock jumps, virtual hours; every DELETE checked at its effect instant against catalog history, grace, pins and retention cut-off",
            "Store request log as monitor: each physical delete of a data file must concern a file unreferenced by every catalog version current during [t-grace, t], not pinned at the effect instant, and previously listed; each retention removal (catalog transition dropping chunks without a replacement) must concern a chunk whose newest row is older than now-retention-30 s; deletions persisted when the compactor died must be carried out after restart (bounded liveness, not judged after an injected backward clock jump, which legitimately postpones GC). The dataset has chunks entirely older than, entirely newer than, straddling and about to cross the cut-off, and (eighth mutant round) one whose newest row is a drawn 1..170 minutes inside the window at the start, so that the cut-off passes it in some runs and stops just short of it in others.",
            "Compactor and query node share a process; object-store catalog backend; only backward clock jumps are injected (BoundedClock claims to mask those).",
            "DESIGN.md section 3 C09"),
    "C05": ("ingest", "fault_enumeration",
            "deterministic simulation of the WAL on a fault-injecting disk shim: seeded operation histories with crashes, plus a systematic sweep cutting the final write at every byte offset; reference-log oracle",
            "Real WriteAheadLog + flushed_seq persistence on a synchronous tmpfs shim whose every file operation can fail, write short, be torn at a byte, or kill the process. Random histories (append/rotate/truncate/persist/reopen, 1..4 crash-reopen rounds) and, for N generated histories, one run per byte offset 0..=T of the final append plus 'die right after creating the rotated segment' (enumeration of that fault position, sampling of histories). After every reopen the recovered log must equal the reference log minus a monotone prefix of truncated entries, an in-doubt entry is present iff written completely, payloads decode to the appended batches, every seq/next_seq exceeds all acknowledged seqs and the recorded flushed mark.",
            "Process-crash semantics (bytes written before the cut survive; nothing is reordered); power-loss loss of un-synced data is not modelled. Disk errors in the middle of an entry are outside C05's quantifier (covered under C01).",
            "DESIGN.md section 3 C05"),
    "C06": ("ingest", "exploration",
            "deterministic simulation: seeded interleaving of concurrent writers, threshold and timer flushes at every object-store request and the post-WAL-append pause point; exact multiset oracle on decoded chunks and subscriber streams",
            "Fault-free runs of the real Ingester with 2..4 writers, 4 schema variants (both timestamp types, nullable labels, numeric extremes), flush thresholds 2..50, timer 0.2..5 s, WAL on/off, both catalogs; after shutdown the multiset of rows decoded from all catalogued chunks equals the rows of accepted writes (BufferFull rejections contribute nothing), every catalog entry has the file's true row count/min/max, each subscriber received each stored row exactly once, and no error other than BufferFull occurs. Added during the build: requests are issued through the real Arrow-Flight and OTLP ingest handlers as tasks of their own and a third of the runs drop handler futures at seeded points (client disconnect); one write in seven re-sends the previous batch unchanged; a quarter of the runs give every hash table an unlucky-but-legal key (the hash seam); verdict at quiescence.",
            "Chunk spans below 30 days; subscribers keep up; data races inside in-memory structures on a multi-thread runtime are not explored (request-granularity interleaving only).",
            "DESIGN.md section 3 C06"),
    "C01": ("ingest", "fault_enumeration",
            "deterministic simulation with fault injection: seeded schedules x store faults x disk faults x node crashes/restarts (incarnation fencing), plus a systematic sweep failing/crashing at every object-store request of generated workloads; row-id conservation oracle",
            "Real Ingester + WAL (EveryWrite) + object-store catalog; 2..4 writers, timer; per-run fault profile (store fail-before/after/delay; disk ENOSPC/EIO/short/torn; crashes at quiescent points or inside file operations; up to 6 restarts incl. crash during recovery); ended by graceful shutdown or crash+restart+shutdown with faults off. Every row whose write() returned Ok while the node was alive must be in a catalogued chunk afterwards; stored rows must equal what was submitted; duplicates allowed. Sweep: every request index x {crash before, crash after, fail before, fail after}. Added during the build: the file stand-in mirrors tokio::fs::File's deferred reporting of write errors; disk-full after a partial write; power-loss mode (unsynced bytes dropped, pages of a failed fsync dropped even if a later fsync succeeds, a file created since the last fsync of its directory does not exist); store outages (a run of consecutive failed requests).",
            "EveryWrite sync mode; process-crash disk semantics in two thirds of the runs, power-loss semantics in one third; acknowledgement = write() returned Ok on a live incarnation; in-flight requests are drained before a graceful shutdown.",
            "DESIGN.md section 3 C01"),
    "C13": ("meta-cas", "exploration",
            "deterministic simulation: seeded request-level interleaving of real catalog clients on shard objects + store fault injection; version-history check of the generation chain",
            "Seeded search over interleavings of 2..4 real clients creating/updating shard metadata with fresh, stale and wrong expected generations, with injected request failures/delays; every version of shards/<id>.json is attributed to exactly one call whose expected generation equals the previous version's, generations rise by exactly one, at most one winner per base generation; ShardRouter is fed the observed versions in random order and must never regress. Sampling, not proof.",
            "Trusts InMemory's conditional PUT as the model of S3; the in-memory backend's check-then-insert has no request to interleave at and is not covered.",
            "DESIGN.md section 3 C13"),
    "C08": ("meta-cas", "exploration",
            "deterministic simulation: seeded request-level interleaving + virtual clock (time may pass between any request's GET and PUT) + store fault injection; per-version live-lease disjointness and refinement against a sequential lease model",
            "Seeded search over interleavings of 2..4 nodes' acquire/renew/complete/fail/scavenge on overlapping chunk sets with drawn virtual pauses around the 300 s TTL and scheduler-chosen time advances inside operations; on every version of the lease file, live leases are pairwise disjoint at the write instant, and every version is exactly the sequential model's step of the one operation in flight with its clock reading inside the call window (so a live lease cannot be removed or handed on, a reclaimed lease cannot be renewed); bounded liveness: 301 s after the last op an uncontended acquire of all chunks succeeds.",
            "All nodes read one clock (as the statement says); InMemory models S3 conditional PUT.",
            "DESIGN.md section 3 C08"),
    "C07": ("meta-cas", "exploration",
            "deterministic simulation with a reference interval map: identical generated histories on both real backends, virtual clock ages the object-store client's cache, store faults on mutations; op-by-op differential against the model",
            "Seeded generation of register/re-register/delete/complete histories with intervals and query ranges on hour boundaries +-1 ns, negative, zero-length, multi-day and inverted; after every operation both backends (and a second object-store client after its cache TTL elapsed in virtual time) must return exactly the model's answer for several ranges, plus list/get_chunk; a failed (fault-injected) mutation must leave lookups exact. The schedule dimension is small here (single writer); the simulator contributes the clock, the fault seam and the model.",
            "History/interval generation is seeded input generation; concurrency on the catalog is C02's subject.",
            "DESIGN.md section 3 C07"),
}

NOT_YET = {}

NA = {
    "C12": "pure function of (predicate, statistics): no schedule, clock, fault or interleaving to simulate, and the shipped write path never stores statistics; the deciding technique would be property-based testing / SMT, which this task does not use (DESIGN.md section 4)",
    "C17": "protocol conversion and parser totality are pure functions of the request bytes (the Flight 'stream' is a synchronous iterator); nothing for a simulator to schedule or fault; needs fuzzing / property tests (DESIGN.md section 4)",
}

def main():
    props = [json.loads(l)["id"] for l in open(os.path.join(HERE, "properties.jsonl"))]
    hooks_commits = subprocess.run(["git", "-C", "/repo", "log", "--format=%H %s", "--grep=^verif hooks"],
                                   capture_output=True, text=True).stdout.strip().splitlines()
    checks = []
    for pid in props:
        if pid in CLAIMED:
            eng, level, tech, text, note, ref = CLAIMED[pid]
            checks.append({
                "property_id": pid,
                "quick_cmd": f"./check {pid} quick",
                "thorough_cmd": f"./check {pid} thorough",
                "evidence_file": f"/verif/evidence/{pid}.json",
                "replay_cmd_template": "./check --replay {path}",
                "engine": eng,
                "level_claimed": {"category": level, "text": text, "design_ref": ref},
                "level_note": note,
                "technique": tech,
            })
    na = []
    for pid in props:
        if pid in CLAIMED:
            continue
        if pid in NA:
            na.append({"property_id": pid, "reason": NA[pid]})
        else:
            na.append({"property_id": pid, "reason": NOT_YET.get(pid, "check designed (DESIGN.md section 3) but not built yet at this revision; not claimed until its check runs clean or reports triaged findings")})
    engines = {}
    for pid, v in CLAIMED.items():
        engines.setdefault(v[0], []).append(pid)
    man = {
        "version": 1,
        "setup_cmd": "cd /verif/sim && CARGO_NET_OFFLINE=true cargo build --offline",
        "hooks": {
            "guard": "--cfg cardinalsin_verif",
            "enable": "RUSTFLAGS in /verif/sim/.cargo/config.toml: --cfg cardinalsin_verif --cfg tokio_unstable (plus link args exporting the interposed clock_gettime/getrandom); /repo is a path dependency of /verif/sim, so every ./check rebuilds it from the current working tree with hooks on",
            "baseline_off_cmd": "cd /repo && cargo nextest run --workspace --no-fail-fast --tool-config-file pb:/w/lib/nextest.toml --profile pb --test-threads 8 --offline || cargo test --workspace --no-fail-fast --offline",
            "source_commits": [c.split()[0] for c in hooks_commits],
            "add_only": True,
        },
        "engines": [{"name": k, "path": "/verif/sim", "serves_properties": sorted(v),
                     "kind_free_text": "deterministic simulation (fork-per-run, single-threaded tokio with paused clock, quiescence scheduler, interposed clock/entropy, SimStore, WAL disk shim)"}
                    for k, v in sorted(engines.items())],
        "checks": checks,
        "not_applicable": na,
        "notes": "All checks: ./check <ID> <quick|thorough>; VERIF_SEED selects the explored region; exit 0 clean / 1 violation (VIOLATION line + replay file under /verif/replays) / 2 harness error. Known findings: /verif/known_findings.json.",
    }
    json.dump(man, open(os.path.join(HERE, "MANIFEST.json"), "w"), indent=1)
    print("claimed:", [c["property_id"] for c in checks])
    print("not claimed:", [n["property_id"] for n in na])

if __name__ == "__main__":
    main()
