#!/usr/bin/env python3
"""Regenerates /verif/MANIFEST.json from the table below (keeps it schema-valid)."""
import json, os, subprocess

HERE = os.path.dirname(os.path.dirname(os.path.abspath(__file__)))

# id -> (engine, level, technique, level text, level note, design ref)
CLAIMED = {
    "C02": ("meta-cas", "exploration",
            "deterministic simulation: seeded request-level interleaving of real catalog clients + store fault injection; version-history refinement against a sequential catalog model",
            "Seeded search over interleavings (object-store-request granularity) of 2..4 real ObjectStoreMetadataClients with injected request failures (before/after effect) and delays; every catalog.json version ever written is checked to be exactly one model step of exactly one in-flight operation, with index/map agreement on every version. Sampling, not proof: the quantifier is all schedules x histories, which only a search can approach.",
            "Trusts object_store::memory::InMemory as the model of S3 conditional PUT; a lost response (fail-after-effect) may legitimately leave one applied version behind a failed call.",
            "DESIGN.md section 3 C02"),
}

NOT_YET = {}

NA = {
    "C12": "pure function of (predicate, statistics): no schedule, clock, fault or interleaving to simulate, and the shipped write path never stores statistics; the deciding technique would be property-based testing / SMT, which this task does not use (DESIGN.md section 4)",
    "C17": "protocol conversion and parser totality are pure functions of the request bytes (the Flight 'stream' is a synchronous iterator); nothing for a simulator to schedule or fault; needs fuzzing / property tests (DESIGN.md section 4)",
}

def main():
    props = [json.loads(l)["id"] for l in open(os.path.join(HERE, "properties.jsonl"))]
    hooks_commits = subprocess.run(["git", "-C", "/repo", "log", "--format=%H %s", "--grep=^verif hooks"],
                                   capture_output=True, text=True).stdout.strip().splitlines()
    checks = []
    for pid in props:
        if pid in CLAIMED:
            eng, level, tech, text, note, ref = CLAIMED[pid]
            checks.append({
                "property_id": pid,
                "quick_cmd": f"./check {pid} quick",
                "thorough_cmd": f"./check {pid} thorough",
                "evidence_file": f"/verif/evidence/{pid}.json",
                "replay_cmd_template": "./check --replay {path}",
                "engine": eng,
                "level_claimed": {"category": level, "text": text, "design_ref": ref},
                "level_note": note,
                "technique": tech,
            })
    na = []
    for pid in props:
        if pid in CLAIMED:
            continue
        if pid in NA:
            na.append({"property_id": pid, "reason": NA[pid]})
        else:
            na.append({"property_id": pid, "reason": NOT_YET.get(pid, "check designed (DESIGN.md section 3) but not built yet at this revision; not claimed until its check runs clean or reports triaged findings")})
    engines = {}
    for pid, v in CLAIMED.items():
        engines.setdefault(v[0], []).append(pid)
    man = {
        "version": 1,
        "setup_cmd": "cd /verif/sim && CARGO_NET_OFFLINE=true cargo build --offline",
        "hooks": {
            "guard": "--cfg cardinalsin_verif",
            "enable": "RUSTFLAGS in /verif/sim/.cargo/config.toml: --cfg cardinalsin_verif --cfg tokio_unstable (plus link args exporting the interposed clock_gettime/getrandom); /repo is a path dependency of /verif/sim, so every ./check rebuilds it from the current working tree with hooks on",
            "baseline_off_cmd": "cd /repo && cargo nextest run --workspace --no-fail-fast --tool-config-file pb:/w/lib/nextest.toml --profile pb --test-threads 8 --offline || cargo test --workspace --no-fail-fast --offline",
            "source_commits": [c.split()[0] for c in hooks_commits],
            "add_only": True,
        },
        "engines": [{"name": k, "path": "/verif/sim", "serves_properties": sorted(v),
                     "kind_free_text": "deterministic simulation (fork-per-run, single-threaded tokio with paused clock, quiescence scheduler, interposed clock/entropy, SimStore, WAL disk shim)"}
                    for k, v in sorted(engines.items())],
        "checks": checks,
        "not_applicable": na,
        "notes": "All checks: ./check <ID> <quick|thorough>; VERIF_SEED selects the explored region; exit 0 clean / 1 violation (VIOLATION line + replay file under /verif/replays) / 2 harness error. Known findings: /verif/known_findings.json.",
    }
    json.dump(man, open(os.path.join(HERE, "MANIFEST.json"), "w"), indent=1)
    print("claimed:", [c["property_id"] for c in checks])
    print("not claimed:", [n["property_id"] for n in na])

if __name__ == "__main__":
    main()
