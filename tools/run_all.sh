#!/bin/bash
# tools/run_all.sh [quick|thorough]   run every claimed check once at the given tier; lists exit codes
cd "$(dirname "$0")/.." || exit 2
TIER="${1:-quick}"
if [ -n "${VP_RUN_REPO:-}" ] && [ -d "$VP_RUN_REPO" ]; then sed -i "s|path = \"/repo\"|path = \"$VP_RUN_REPO\"|" sim/Cargo.toml; echo "using repo snapshot $VP_RUN_REPO"; fi
IDS=$(python3 -c "import json; print(' '.join(c['property_id'] for c in json.load(open('MANIFEST.json'))['checks']))")
BAD=0
for id in $IDS; do
  out=$(VERIF_REPLAY_DIR=/tmp/run-all-replays ./check "$id" "$TIER" 2>&1); rc=$?
  echo "$id exit=$rc $(echo "$out" | grep SUMMARY | cut -c1-220)"
  if [ $rc -ne 0 ]; then BAD=$((BAD+1)); echo "$out" | grep -E "VIOLATION|signature|detail|HARNESS|harness" | head -8 | cut -c1-400; fi
done
echo "RUN-ALL DONE tier=$TIER bad=$BAD"
