//! simcheck — deterministic simulation checks for cardinalsin.
//!
//!   simcheck check  <PROP> <quick|thorough>
//!   simcheck replay <file>
//!   simcheck audit  <PROP> [n]
//!   simcheck one    <PROP> <seed-index> [variant]   (debug: one run with trace)

#![allow(dead_code, unused_imports, clippy::type_complexity)]
mod core;
mod scen;

use crate::core::coord;

fn main() {
    crate::core::sim::install_hash_source();
    let args: Vec<String> = std::env::args().collect();
    let seed: u64 = std::env::var("VERIF_SEED").ok().and_then(|s| s.parse().ok()).unwrap_or(20260925);
    let cmd = args.get(1).map(|s| s.as_str()).unwrap_or("");
    let code = match cmd {
        "check" => {
            let prop = args.get(2).expect("property id");
            let tier = std::env::var("VERIF_TIER").ok().or_else(|| args.get(3).cloned()).unwrap_or_else(|| "quick".into());
            let tier = args.get(3).cloned().unwrap_or(tier);
            match scen::get(prop) {
                Some(def) => coord::check(def, &tier, seed),
                None => {
                    eprintln!("unknown property {prop}");
                    2
                }
            }
        }
        "replay" => {
            let path = args.get(2).expect("replay file");
            let s = std::fs::read_to_string(path).expect("read replay file");
            let v: serde_json::Value = serde_json::from_str(&s).expect("parse replay file");
            let prop = v["property"].as_str().unwrap_or("").to_string();
            match scen::get(&prop) {
                Some(def) => coord::replay(def, path),
                None => {
                    eprintln!("unknown property {prop}");
                    2
                }
            }
        }
        "probe-hash" => {
            let k: u64 = args.get(2).and_then(|s| s.parse().ok()).unwrap_or(147827);
            crate::core::sim::debug_hash_probe(crate::core::run::mix2(k, 4));
            0
        }
        "probe-zero" => {
            // debug: how often does a chunk holding both +0.0 and -0.0 in one Float64 column come back altered,
            // as a function of the ahash key (which the parquet dictionary interner draws per column writer)?
            use crate::scen::ingest::{batch, decode_parquet, row_strings, Row};
            let n: u64 = args.get(2).and_then(|s| s.parse().ok()).unwrap_or(200_000);
            let pw = cardinalsin::ingester::ParquetWriter::new();
            let rows: Vec<Row> = [-0.0f64, 0.0].iter().enumerate().map(|(i, v)| Row { id: i as i64, ts: 1_700_000_000_000_000_000, metric: "cpu".into(), host: None, vi: None, vf: Some(*v), vu: None }).collect();
            let b = batch(2, &rows);
            let want = row_strings(&b);
            let mut altered = 0u64;
            let mut first = None;
            let adversarial = args.get(3).map(|s| s == "adversarial").unwrap_or(false);
            for k in 0..n {
                crate::core::sim::reset_hash_source(crate::core::run::mix2(k, 4));
                if adversarial {
                    crate::core::sim::set_adversarial_hash(true);
                }
                let bytes = pw.write_batch(&b).expect("write");
                let got: Vec<String> = decode_parquet(bytes).expect("decode").iter().flat_map(row_strings).collect();
                if got != want {
                    altered += 1;
                    if first.is_none() {
                        first = Some((k, got.clone()));
                    }
                }
            }
            println!("chunks written: {n}; chunks whose stored rows differ from the written rows: {altered}; first: {:?}; written: {:?}", first, want);
            0
        }
        "audit-dump" => {
            let prop = args.get(2).expect("property id");
            let n: usize = args.get(3).and_then(|s| s.parse().ok()).unwrap_or(400);
            match scen::get(prop) {
                Some(def) => coord::audit_dump(def, n, seed),
                None => 2,
            }
        }
        "audit" => {
            let prop = args.get(2).expect("property id");
            let n: usize = args.get(3).and_then(|s| s.parse().ok()).unwrap_or(400);
            match scen::get(prop) {
                Some(def) => coord::audit(def, n, seed),
                None => 2,
            }
        }
        "one" => {
            let prop = args.get(2).expect("property id");
            let idx_arg = args.get(3).cloned().unwrap_or_default();
            let raw_seed: Option<u64> = idx_arg.strip_prefix("seed=").and_then(|s| s.parse().ok());
            let idx: u64 = idx_arg.parse().unwrap_or(0);
            let variant = args.get(4).cloned().unwrap_or_else(|| "random".into());
            match scen::get(prop) {
                Some(def) => {
                    let co = coord::Coord::new(def, "quick", seed);
                    let mut spec = co.spec(idx, &variant);
                    if let Some(rs) = raw_seed {
                        spec.seed = rs;
                    }
                    spec.want_trace = true;
                    let outs = co.exec(&[spec], false);
                    if let Some(o) = &outs[0] {
                        for l in &o.trace {
                            println!("{l}");
                        }
                        println!("outcome={} completed={} nontrivial={} grants={} virt={}s wall={}ms", o.outcome, o.completed, o.nontrivial, o.grants, o.virt_ns / 1_000_000_000, o.wall_ms);
                        println!("faults={:?} probes={:?}", o.faults, o.probes);
                        for (s, d) in &o.violations {
                            println!("violation {s}: {d}");
                        }
                        if !o.harness_error.is_empty() {
                            println!("harness: {}", o.harness_error);
                        }
                    }
                    0
                }
                None => 2,
            }
        }
        _ => {
            eprintln!("usage: simcheck check <PROP> <quick|thorough> | replay <file> | audit <PROP> [n] | one <PROP> <i> [variant]");
            2
        }
    };
    std::process::exit(code);
}
