//! simcheck — deterministic simulation checks for cardinalsin.
//!
//!   simcheck check  <PROP> <quick|thorough>
//!   simcheck replay <file>
//!   simcheck audit  <PROP> [n]
//!   simcheck one    <PROP> <seed-index> [variant]   (debug: one run with trace)

#![allow(dead_code, unused_imports, clippy::type_complexity)]
mod core;
mod scen;

use crate::core::coord;

fn main() {
    let args: Vec<String> = std::env::args().collect();
    let seed: u64 = std::env::var("VERIF_SEED").ok().and_then(|s| s.parse().ok()).unwrap_or(20260925);
    let cmd = args.get(1).map(|s| s.as_str()).unwrap_or("");
    let code = match cmd {
        "check" => {
            let prop = args.get(2).expect("property id");
            let tier = std::env::var("VERIF_TIER").ok().or_else(|| args.get(3).cloned()).unwrap_or_else(|| "quick".into());
            let tier = args.get(3).cloned().unwrap_or(tier);
            match scen::get(prop) {
                Some(def) => coord::check(def, &tier, seed),
                None => {
                    eprintln!("unknown property {prop}");
                    2
                }
            }
        }
        "replay" => {
            let path = args.get(2).expect("replay file");
            let s = std::fs::read_to_string(path).expect("read replay file");
            let v: serde_json::Value = serde_json::from_str(&s).expect("parse replay file");
            let prop = v["property"].as_str().unwrap_or("").to_string();
            match scen::get(&prop) {
                Some(def) => coord::replay(def, path),
                None => {
                    eprintln!("unknown property {prop}");
                    2
                }
            }
        }
        "audit" => {
            let prop = args.get(2).expect("property id");
            let n: usize = args.get(3).and_then(|s| s.parse().ok()).unwrap_or(400);
            match scen::get(prop) {
                Some(def) => coord::audit(def, n, seed),
                None => 2,
            }
        }
        "one" => {
            let prop = args.get(2).expect("property id");
            let idx_arg = args.get(3).cloned().unwrap_or_default();
            let raw_seed: Option<u64> = idx_arg.strip_prefix("seed=").and_then(|s| s.parse().ok());
            let idx: u64 = idx_arg.parse().unwrap_or(0);
            let variant = args.get(4).cloned().unwrap_or_else(|| "random".into());
            match scen::get(prop) {
                Some(def) => {
                    let co = coord::Coord::new(def, "quick", seed);
                    let mut spec = co.spec(idx, &variant);
                    if let Some(rs) = raw_seed {
                        spec.seed = rs;
                    }
                    spec.want_trace = true;
                    let outs = co.exec(&[spec], false);
                    if let Some(o) = &outs[0] {
                        for l in &o.trace {
                            println!("{l}");
                        }
                        println!("outcome={} completed={} nontrivial={} grants={} virt={}s wall={}ms", o.outcome, o.completed, o.nontrivial, o.grants, o.virt_ns / 1_000_000_000, o.wall_ms);
                        println!("faults={:?} probes={:?}", o.faults, o.probes);
                        for (s, d) in &o.violations {
                            println!("violation {s}: {d}");
                        }
                        if !o.harness_error.is_empty() {
                            println!("harness: {}", o.harness_error);
                        }
                    }
                    0
                }
                None => 2,
            }
        }
        _ => {
            eprintln!("usage: simcheck check <PROP> <quick|thorough> | replay <file> | audit <PROP> [n] | one <PROP> <i> [variant]");
            2
        }
    };
    std::process::exit(code);
}
