//! One run = one forked child process. This file holds the child side
//! (`run_child`) and the fork / pipe plumbing used by the coordinator.

use super::sim;
use serde::{Deserialize, Serialize};
use std::collections::BTreeMap;
use std::future::Future;
use std::pin::Pin;

#[derive(Debug, Clone, Serialize, Deserialize, Default)]
pub struct RunSpec {
    pub prop: String,
    pub seed: u64,
    /// scenario-specific variant, e.g. "random", "sweep:12:fail_before"
    pub variant: String,
    pub wtape: Option<Vec<u32>>,
    pub stape: Option<Vec<u32>>,
    pub want_trace: bool,
    pub want_tapes: bool,
}

#[derive(Debug, Clone, Serialize, Deserialize, Default)]
pub struct RunOut {
    pub seed: u64,
    pub variant: String,
    /// ok | violation | budget | harness
    pub outcome: String,
    pub violations: Vec<(String, String)>,
    pub harness_error: String,
    pub virt_ns: u64,
    pub grants: u64,
    pub events: u64,
    pub faults: BTreeMap<String, u64>,
    pub probes: BTreeMap<String, u64>,
    pub sched_sig: u64,
    pub state_sigs: Vec<u64>,
    pub log_hash: u64,
    pub completed: bool,
    pub nontrivial: bool,
    pub interleaved: bool,
    pub wtape: Vec<u32>,
    pub stape: Vec<u32>,
    pub trace: Vec<String>,
    pub extra: BTreeMap<String, serde_json::Value>,
    pub wall_ms: u64,
}

pub type ScenFut = Pin<Box<dyn Future<Output = ()> + Send>>;
pub type ScenFn = fn(RunSpec) -> ScenFut;

fn mix(mut z: u64) -> u64 {
    z = z.wrapping_add(0x9E3779B97F4A7C15);
    z = (z ^ (z >> 30)).wrapping_mul(0xBF58476D1CE4E5B9);
    z = (z ^ (z >> 27)).wrapping_mul(0x94D049BB133111EB);
    z ^ (z >> 31)
}
pub fn mix2(a: u64, b: u64) -> u64 {
    mix(mix(a) ^ b.wrapping_mul(0xD1B54A32D192ED03))
}

/// Panics that are not a verdict of the named property by themselves (property, fragment of the panic location).
/// C16: foyer's flusher task asserts that an entry fits into a region of the disk tier (min(64 MiB, l2_size)); with an
/// object larger than that the task dies and the disk tier stops caching. Reads stay exact (shown on the real code,
/// findings/C16-object-larger-than-disk-tier-region-demo.rs) - which is all C16 states, and what the check goes on
/// checking for the rest of the run.
const NOT_JUDGED_PANICS: &[(&str, &str)] = &[("C16", "/foyer-storage-")];

thread_local! {
    static PANICS: std::cell::RefCell<Vec<String>> = const { std::cell::RefCell::new(Vec::new()) };
}

/// Executed inside the forked child, on a dedicated thread.
pub fn run_child(spec: RunSpec, scen: ScenFn, cpu: usize) -> RunOut {
    let t0 = std::time::Instant::now();
    // pin to one CPU *before* anything sizes itself from num_cpus
    unsafe {
        let mut set: libc::cpu_set_t = std::mem::zeroed();
        libc::CPU_SET(cpu, &mut set);
        libc::sched_setaffinity(0, std::mem::size_of::<libc::cpu_set_t>(), &set);
    }
    let spec2 = spec.clone();
    let handle = std::thread::Builder::new()
        .stack_size(256 << 20)
        .spawn(move || {
            let spec = spec2;
            sim::activate(mix2(spec.seed, 3));
            sim::reset_hash_source(mix2(spec.seed, 4));
            let wt = match &spec.wtape {
                Some(v) => sim::Tape::replay(v.clone()),
                None => sim::Tape::random(mix2(spec.seed, 1)),
            };
            let st = match &spec.stape {
                Some(v) => sim::Tape::replay(v.clone()),
                None => sim::Tape::random(mix2(spec.seed, 2)),
            };
            sim::install(wt, st, spec.want_trace);
            std::panic::set_hook(Box::new(|info| {
                let loc = info.location().map(|l| format!("{}:{}", l.file(), l.line())).unwrap_or_default();
                let msg = if let Some(s) = info.payload().downcast_ref::<&str>() {
                    s.to_string()
                } else if let Some(s) = info.payload().downcast_ref::<String>() {
                    s.clone()
                } else {
                    "<non-string panic>".to_string()
                };
                let bt = if std::env::var("VERIF_BACKTRACE").is_ok() { format!("\n{}", std::backtrace::Backtrace::force_capture()) } else { String::new() };
                let line = format!("{loc}: {msg}{bt}");
                let _ = PANICS.try_with(|p| p.borrow_mut().push(line));
            }));
            let rt = tokio::runtime::Builder::new_current_thread()
                .enable_all()
                .start_paused(true)
                .rng_seed(tokio::runtime::RngSeed::from_bytes(&spec.seed.to_le_bytes()))
                .on_thread_park(sim::on_park)
                .on_thread_unpark(sim::on_unpark)
                .build()
                .expect("runtime");
            sim::log(format!("RUN prop={} seed={} variant={}", spec.prop, spec.seed, spec.variant));
            let spec3 = spec.clone();
            let res = std::panic::catch_unwind(std::panic::AssertUnwindSafe(|| {
                rt.block_on(async move {
                    sim::spawn_ticker();
                    sim::install_pause_hook();
                    let main = tokio::spawn(scen(spec3));
                    tokio::select! {
                        r = main => {
                            if let Err(e) = r {
                                if e.is_panic() {
                                    sim::log("scenario task panicked".into());
                                }
                            }
                            None
                        }
                        why = sim::Aborted => Some(why),
                    }
                })
            }));
            let now = sim::now_ns();
            let panics: Vec<String> = PANICS.with(|p| p.borrow().clone());
            let mut st = sim::take_state().expect("state");
            let mut out = RunOut {
                seed: spec.seed,
                variant: spec.variant.clone(),
                virt_ns: now,
                grants: st.grants,
                events: st.ev,
                faults: std::mem::take(&mut st.faults),
                probes: std::mem::take(&mut st.probes),
                sched_sig: st.sched_sig,
                state_sigs: std::mem::take(&mut st.state_sigs),
                completed: st.completed,
                nontrivial: st.nontrivial,
                interleaved: st.interleaved,
                extra: std::mem::take(&mut st.extra),
                ..Default::default()
            };
            out.violations = std::mem::take(&mut st.violations);
            // panics: in harness code => harness error; elsewhere => reported to the scenario's verdict
            for p in &panics {
                if p.contains("/verif/sim/") || p.starts_with("src/") {
                    out.harness_error = format!("panic in harness: {p}");
                } else if NOT_JUDGED_PANICS.iter().any(|(prop, frag)| *prop == spec.prop && p.contains(frag)) {
                    // a background task of a dependency died; the property's own clauses (here: every read is
                    // exact) keep being checked - see DESIGN 8.2
                    *out.probes.entry("background-task-of-a-dependency-panicked(not judged)".into()).or_insert(0) += 1;
                } else {
                    let loc = p.split(": ").next().unwrap_or("").to_string();
                    let short = loc.rsplit('/').next().unwrap_or("").to_string();
                    out.violations.push((format!("{}/panic/{}", spec.prop, short), p.clone()));
                }
            }
            match res {
                Ok(Some(why)) => {
                    if out.violations.is_empty() {
                        out.outcome = "budget".into();
                        out.harness_error = why;
                    }
                }
                Ok(None) => {}
                Err(_) => {
                    if out.violations.is_empty() && out.harness_error.is_empty() {
                        out.harness_error = format!("runtime panicked: {:?}", panics);
                    }
                }
            }
            if !out.harness_error.is_empty() && out.outcome != "budget" {
                out.outcome = "harness".into();
            } else if !out.violations.is_empty() {
                out.outcome = "violation".into();
            } else if out.outcome.is_empty() {
                out.outcome = "ok".into();
            }
            // log hash must include the verdict
            let mut lh = st.log_hash_value();
            for (s, d) in &out.violations {
                lh = lh.wrapping_mul(31).wrapping_add(sim::hash_str(s)).wrapping_add(sim::hash_str(d));
            }
            out.log_hash = lh;
            if spec.want_trace {
                out.trace = std::mem::take(&mut st.log);
            }
            if spec.want_tapes || out.outcome == "violation" {
                out.wtape = std::mem::take(&mut st.wtape.rec);
                out.stape = std::mem::take(&mut st.stape.rec);
            }
            sim::deactivate();
            // never drop the runtime: parked zombie tasks would be polled for cancellation
            std::mem::forget(rt);
            out
        })
        .expect("spawn sim thread");
    let mut out = match handle.join() {
        Ok(o) => o,
        Err(_) => RunOut {
            seed: spec.seed,
            variant: spec.variant.clone(),
            outcome: "harness".into(),
            harness_error: "sim thread panicked outside the runtime".into(),
            ..Default::default()
        },
    };
    out.wall_ms = t0.elapsed().as_millis() as u64;
    out
}

// ------------------------------ fork plumbing --------------------------------

pub struct Child {
    pub pid: i32,
    pub fd: i32,
    pub buf: Vec<u8>,
    pub started: std::time::Instant,
    pub idx: usize,
}

/// Fork a child that runs `spec` and writes its `RunOut` as JSON to a pipe.
pub fn fork_run(spec: &RunSpec, scen: ScenFn, cpu: usize, idx: usize) -> Child {
    unsafe {
        let mut fds = [0i32; 2];
        if libc::pipe(fds.as_mut_ptr()) != 0 {
            panic!("pipe failed");
        }
        let pid = libc::fork();
        if pid < 0 {
            panic!("fork failed");
        }
        if pid == 0 {
            libc::close(fds[0]);
            let out = run_child(spec.clone(), scen, cpu);
            let bytes = serde_json::to_vec(&out).unwrap_or_default();
            let mut off = 0;
            while off < bytes.len() {
                let n = libc::write(fds[1], bytes.as_ptr().add(off) as *const _, bytes.len() - off);
                if n <= 0 {
                    break;
                }
                off += n as usize;
            }
            libc::close(fds[1]);
            libc::_exit(0);
        }
        libc::close(fds[1]);
        // non-blocking read end
        let fl = libc::fcntl(fds[0], libc::F_GETFL);
        libc::fcntl(fds[0], libc::F_SETFL, fl | libc::O_NONBLOCK);
        Child { pid, fd: fds[0], buf: Vec::new(), started: std::time::Instant::now(), idx }
    }
}

/// Drain what is available; returns true at EOF.
pub fn pump(c: &mut Child) -> bool {
    let mut tmp = [0u8; 65536];
    loop {
        let n = unsafe { libc::read(c.fd, tmp.as_mut_ptr() as *mut _, tmp.len()) };
        if n > 0 {
            c.buf.extend_from_slice(&tmp[..n as usize]);
        } else if n == 0 {
            return true;
        } else {
            let e = std::io::Error::last_os_error();
            if e.kind() == std::io::ErrorKind::WouldBlock {
                return false;
            }
            if e.kind() == std::io::ErrorKind::Interrupted {
                continue;
            }
            return true;
        }
    }
}

pub fn reap(c: &Child, kill: bool) -> i32 {
    unsafe {
        if kill {
            libc::kill(c.pid, libc::SIGKILL);
        }
        libc::close(c.fd);
        let mut st = 0;
        libc::waitpid(c.pid, &mut st, 0);
        st
    }
}
