//! `SimStore`: per-node handles over one shared `InMemory` object store.
//! Every request is a scheduling point (gate before its effect, optionally one
//! after), a fault point, is fenced after a crash of its node, and is recorded.

use super::sim::{self, Fault, GateClass};
use async_trait::async_trait;
use bytes::Bytes;
use futures::stream::{BoxStream, StreamExt};
use object_store::memory::InMemory;
use object_store::path::Path;
use object_store::{
    GetOptions, GetResult, ListResult, MultipartUpload, ObjectMeta, ObjectStore, PutMode,
    PutMultipartOpts, PutOptions, PutPayload, PutResult, Result as OsResult,
};
use std::cell::RefCell;
use std::sync::Arc;

#[derive(Debug, Clone)]
pub struct StoreEvent {
    pub ev: u64,
    pub t_ns: u64,
    pub node: u32,
    pub inc: u64,
    pub op: &'static str,
    pub path: String,
    pub mode: String,
    pub ok: bool,
    pub err: String,
    pub fault: Fault,
    /// payload of successful PUTs of control objects (everything that is not a parquet file)
    pub payload: Option<Bytes>,
    pub etag: Option<String>,
}

thread_local! {
    pub static EVENTS: RefCell<Vec<StoreEvent>> = const { RefCell::new(Vec::new()) };
    /// keep the payload of data-file PUTs too (scenarios whose oracle must read files that are deleted later)
    pub static KEEP_DATA_PAYLOADS: std::cell::Cell<bool> = const { std::cell::Cell::new(false) };
}
thread_local! {
    /// called at the instant a DELETE takes effect (before the object disappears)
    pub static DELETE_OBSERVER: RefCell<Option<Box<dyn Fn(&str)>>> = const { RefCell::new(None) };
}
thread_local! {
    /// called when a request is issued (before its gate is granted): (node, op, path)
    pub static ISSUE_OBSERVER: RefCell<Option<Box<dyn Fn(u32, &str, &str)>>> = const { RefCell::new(None) };
}
pub fn set_issue_observer(f: Box<dyn Fn(u32, &str, &str)>) {
    ISSUE_OBSERVER.with(|o| *o.borrow_mut() = Some(f));
}
pub fn set_delete_observer(f: Box<dyn Fn(&str)>) {
    DELETE_OBSERVER.with(|o| *o.borrow_mut() = Some(f));
}
pub fn keep_data_payloads(on: bool) {
    KEEP_DATA_PAYLOADS.with(|k| k.set(on));
}

pub fn events() -> Vec<StoreEvent> {
    EVENTS.with(|e| e.borrow().clone())
}
pub fn events_len() -> usize {
    EVENTS.with(|e| e.borrow().len())
}
pub fn with_events<R>(f: impl FnOnce(&[StoreEvent]) -> R) -> R {
    EVENTS.with(|e| f(&e.borrow()))
}

/// Successful versions of one object, in order.
pub fn versions(path_contains: &str) -> Vec<StoreEvent> {
    EVENTS.with(|e| {
        e.borrow()
            .iter()
            .filter(|x| x.op == "PUT" && x.ok && x.path.contains(path_contains) && x.payload.is_some())
            .cloned()
            .collect()
    })
}

#[derive(Debug)]
pub struct SimStore {
    pub inner: Arc<InMemory>,
    pub node: u32,
    pub inc: u64,
    /// store refuses conditional PUTs (S3-compatible stores without If-Match)
    pub no_cas: bool,
}

impl SimStore {
    pub fn new(inner: Arc<InMemory>, node: u32) -> Arc<SimStore> {
        Arc::new(SimStore { inner, node, inc: sim::inc(node), no_cas: false })
    }
    pub fn new_no_cas(inner: Arc<InMemory>, node: u32) -> Arc<SimStore> {
        Arc::new(SimStore { inner, node, inc: sim::inc(node), no_cas: true })
    }
    pub fn dyn_store(inner: Arc<InMemory>, node: u32) -> Arc<dyn ObjectStore> {
        Self::new(inner, node)
    }

    fn generic_err(what: &str) -> object_store::Error {
        object_store::Error::Generic {
            store: "SimStore",
            source: format!("injected fault: {what}").into(),
        }
    }

    async fn pre(&self, op: &'static str, path: &str, extra: &str) -> Fault {
        // a request of a dead incarnation (a task the crashed process left behind) is never issued
        if sim::alive(self.node, self.inc) {
            ISSUE_OBSERVER.with(|o| {
                if let Some(f) = o.borrow().as_ref() {
                    f(self.node, op, path)
                }
            });
        }
        let site = if extra.is_empty() { format!("{op} {path}") } else { format!("{op} {path} {extra}") };
        let f = sim::gate(self.node, self.inc, GateClass::Store, site).await;
        match f {
            Fault::Delay(ms) => {
                tokio::time::sleep(std::time::Duration::from_millis(ms)).await;
                if !sim::alive(self.node, self.inc) {
                    futures::future::pending::<()>().await;
                }
                Fault::Delay(ms)
            }
            Fault::CrashBefore => {
                sim::crash(self.node);
                futures::future::pending::<()>().await;
                unreachable!()
            }
            f => f,
        }
    }

    async fn post(&self, op: &'static str, path: &str, fault: Fault) {
        if fault == Fault::CrashAfter {
            sim::crash(self.node);
            futures::future::pending::<()>().await;
        }
        if sim::with(|st| st.cfg.post_gates) {
            sim::gate(self.node, self.inc, GateClass::Post, format!("RESP {op} {path}")).await;
        }
    }

    #[allow(clippy::too_many_arguments)]
    fn record(
        &self,
        op: &'static str,
        path: &str,
        mode: String,
        ok: bool,
        err: String,
        fault: Fault,
        payload: Option<Bytes>,
        etag: Option<String>,
    ) {
        let ev = sim::ev();
        let t_ns = sim::now_ns();
        sim::log(format!(
            "STORE n{} {op} {path} {mode} -> {}{}",
            self.node,
            if ok { "ok".to_string() } else { format!("ERR {}", err.chars().take(60).collect::<String>()) },
            if fault == Fault::None { String::new() } else { format!(" [{:?}]", fault) }
        ));
        EVENTS.with(|e| {
            e.borrow_mut().push(StoreEvent {
                ev,
                t_ns,
                node: self.node,
                inc: self.inc,
                op,
                path: path.to_string(),
                mode,
                ok,
                err,
                fault,
                payload,
                etag,
            })
        });
    }
}

impl std::fmt::Display for SimStore {
    fn fmt(&self, f: &mut std::fmt::Formatter<'_>) -> std::fmt::Result {
        write!(f, "SimStore(n{})", self.node)
    }
}

fn err_kind(e: &object_store::Error) -> String {
    match e {
        object_store::Error::NotFound { .. } => "NotFound".into(),
        object_store::Error::AlreadyExists { .. } => "AlreadyExists".into(),
        object_store::Error::Precondition { .. } => "Precondition".into(),
        object_store::Error::NotModified { .. } => "NotModified".into(),
        object_store::Error::NotImplemented => "NotImplemented".into(),
        other => format!("{other}"),
    }
}

#[async_trait]
impl ObjectStore for SimStore {
    async fn put_opts(&self, location: &Path, payload: PutPayload, opts: PutOptions) -> OsResult<PutResult> {
        let path = location.to_string();
        let mode = match &opts.mode {
            PutMode::Overwrite => "Overwrite".to_string(),
            PutMode::Create => "Create".to_string(),
            PutMode::Update(v) => format!("Update({})", v.e_tag.clone().unwrap_or_default()),
        };
        let fault = self.pre("PUT", &path, &mode).await;
        if fault == Fault::FailBefore {
            self.record("PUT", &path, mode, false, "injected(before)".into(), fault, None, None);
            return Err(Self::generic_err("before effect"));
        }
        if self.no_cas && !matches!(opts.mode, PutMode::Overwrite) {
            self.record("PUT", &path, mode, false, "NotImplemented".into(), fault, None, None);
            return Err(object_store::Error::NotImplemented);
        }
        let bytes: Bytes = Bytes::from(payload.as_ref().iter().flat_map(|b| b.iter().copied()).collect::<Vec<u8>>());
        // what is written is part of the execution: the log (and so the determinism audit) covers its content
        sim::log(format!("PAYLOAD n{} {path} {}B fnv={:016x}", self.node, bytes.len(), sim::hash_bytes(&bytes)));
        let r = self.inner.put_opts(location, payload, opts).await;
        let keep_data = KEEP_DATA_PAYLOADS.with(|k| k.get());
        let keep = if (keep_data || !path.ends_with(".parquet")) && bytes.len() <= (1 << 20) { Some(bytes) } else { None };
        match &r {
            Ok(pr) => self.record("PUT", &path, mode, true, String::new(), fault, keep, pr.e_tag.clone()),
            Err(e) => self.record("PUT", &path, mode, false, err_kind(e), fault, None, None),
        }
        self.post("PUT", &path, fault).await;
        if fault == Fault::FailAfter {
            return Err(Self::generic_err("after effect (response lost)"));
        }
        r
    }

    async fn put_multipart_opts(&self, location: &Path, opts: PutMultipartOpts) -> OsResult<Box<dyn MultipartUpload>> {
        let path = location.to_string();
        let fault = self.pre("PUT_MULTIPART", &path, "").await;
        if fault == Fault::FailBefore {
            self.record("PUT_MULTIPART", &path, String::new(), false, "injected(before)".into(), fault, None, None);
            return Err(Self::generic_err("before effect"));
        }
        let r = self.inner.put_multipart_opts(location, opts).await;
        self.record("PUT_MULTIPART", &path, String::new(), r.is_ok(), String::new(), fault, None, None);
        r
    }

    async fn get_opts(&self, location: &Path, options: GetOptions) -> OsResult<GetResult> {
        let path = location.to_string();
        let op: &'static str = if options.head { "HEAD" } else { "GET" };
        let extra = match &options.range {
            Some(r) => format!("{:?}", r),
            None => String::new(),
        };
        let fault = self.pre(op, &path, &extra).await;
        if fault == Fault::FailBefore || fault == Fault::FailAfter {
            self.record(op, &path, extra, false, "injected".into(), fault, None, None);
            return Err(Self::generic_err("read failed"));
        }
        let r = self.inner.get_opts(location, options).await;
        match &r {
            Ok(g) => self.record(op, &path, extra, true, String::new(), fault, None, g.meta.e_tag.clone()),
            Err(e) => self.record(op, &path, extra, false, err_kind(e), fault, None, None),
        }
        self.post(op, &path, fault).await;
        if let Fault::BodyBreak(pct) = fault {
            let g = r?;
            // the request succeeded, the body stream breaks after a prefix (connection reset mid-body)
            let meta = g.meta.clone();
            let range = g.range.clone();
            let attributes = g.attributes.clone();
            let all = g.bytes().await?;
            let cut = all.len() * pct as usize / 100;
            let mut chunks: Vec<OsResult<Bytes>> = Vec::new();
            if cut > 0 {
                chunks.push(Ok(all.slice(0..cut)));
            }
            chunks.push(Err(Self::generic_err("body stream broke (connection reset)")));
            return Ok(GetResult { payload: object_store::GetResultPayload::Stream(futures::stream::iter(chunks).boxed()), meta, range, attributes });
        }
        r
    }

    async fn delete(&self, location: &Path) -> OsResult<()> {
        let path = location.to_string();
        let fault = self.pre("DELETE", &path, "").await;
        if fault == Fault::FailBefore {
            self.record("DELETE", &path, String::new(), false, "injected(before)".into(), fault, None, None);
            return Err(Self::generic_err("before effect"));
        }
        DELETE_OBSERVER.with(|o| {
            if let Some(f) = o.borrow().as_ref() {
                f(&path)
            }
        });
        let r = self.inner.delete(location).await;
        match &r {
            Ok(_) => self.record("DELETE", &path, String::new(), true, String::new(), fault, None, None),
            Err(e) => self.record("DELETE", &path, String::new(), false, err_kind(e), fault, None, None),
        }
        self.post("DELETE", &path, fault).await;
        if fault == Fault::FailAfter {
            return Err(Self::generic_err("after effect (response lost)"));
        }
        r
    }

    fn list(&self, prefix: Option<&Path>) -> BoxStream<'_, OsResult<ObjectMeta>> {
        let prefix = prefix.cloned();
        let p = prefix.as_ref().map(|p| p.to_string()).unwrap_or_default();
        futures::stream::once(async move {
            let fault = self.pre("LIST", &p, "").await;
            if fault == Fault::FailBefore || fault == Fault::FailAfter {
                self.record("LIST", &p, String::new(), false, "injected".into(), fault, None, None);
                return futures::stream::iter(vec![Err(Self::generic_err("list failed"))]).boxed();
            }
            let items: Vec<OsResult<ObjectMeta>> = self.inner.list(prefix.as_ref()).collect().await;
            self.record("LIST", &p, String::new(), true, String::new(), fault, None, None);
            futures::stream::iter(items).boxed()
        })
        .flatten()
        .boxed()
    }

    async fn list_with_delimiter(&self, prefix: Option<&Path>) -> OsResult<ListResult> {
        let p = prefix.map(|p| p.to_string()).unwrap_or_default();
        let fault = self.pre("LISTD", &p, "").await;
        if fault == Fault::FailBefore || fault == Fault::FailAfter {
            self.record("LISTD", &p, String::new(), false, "injected".into(), fault, None, None);
            return Err(Self::generic_err("list failed"));
        }
        let r = self.inner.list_with_delimiter(prefix).await;
        self.record("LISTD", &p, String::new(), r.is_ok(), String::new(), fault, None, None);
        r
    }

    async fn copy(&self, from: &Path, to: &Path) -> OsResult<()> {
        let path = format!("{from} -> {to}");
        let fault = self.pre("COPY", &path, "").await;
        if fault == Fault::FailBefore {
            self.record("COPY", &path, String::new(), false, "injected(before)".into(), fault, None, None);
            return Err(Self::generic_err("before effect"));
        }
        let r = self.inner.copy(from, to).await;
        self.record("COPY", &path, String::new(), r.is_ok(), String::new(), fault, None, None);
        self.post("COPY", &path, fault).await;
        if fault == Fault::FailAfter {
            return Err(Self::generic_err("after effect (response lost)"));
        }
        r
    }

    async fn copy_if_not_exists(&self, from: &Path, to: &Path) -> OsResult<()> {
        let path = format!("{from} -> {to}");
        let fault = self.pre("COPY_IF_NOT_EXISTS", &path, "").await;
        if fault == Fault::FailBefore {
            self.record("COPY_IF_NOT_EXISTS", &path, String::new(), false, "injected(before)".into(), fault, None, None);
            return Err(Self::generic_err("before effect"));
        }
        let r = self.inner.copy_if_not_exists(from, to).await;
        self.record("COPY_IF_NOT_EXISTS", &path, String::new(), r.is_ok(), String::new(), fault, None, None);
        self.post("COPY_IF_NOT_EXISTS", &path, fault).await;
        if fault == Fault::FailAfter {
            return Err(Self::generic_err("after effect (response lost)"));
        }
        r
    }
}

/// Raw (ungated, unrecorded) read of an object — for oracles only.
pub async fn raw_get(inner: &Arc<InMemory>, path: &str) -> Option<Bytes> {
    match inner.get(&Path::from(path)).await {
        Ok(g) => g.bytes().await.ok(),
        Err(_) => None,
    }
}
pub async fn raw_list(inner: &Arc<InMemory>) -> Vec<(String, usize, Option<String>)> {
    let mut v: Vec<(String, usize, Option<String>)> = inner
        .list(None)
        .filter_map(|m| async move { m.ok() })
        .map(|m| (m.location.to_string(), m.size, m.e_tag))
        .collect()
        .await;
    v.sort();
    v
}
