pub mod coord;
pub mod run;
pub mod sim;
pub mod store;
