pub mod coord;
pub mod disk;
pub mod run;
pub mod sim;
pub mod store;
