//! Parent-side coordinator: forks runs, aggregates coverage, minimises and
//! writes replay files, matches known findings, writes evidence.

use super::run::{self, Child, RunOut, RunSpec, ScenFn};
use serde_json::json;
use std::collections::{BTreeMap, HashSet};
use std::time::{Duration, Instant};

pub struct PropDef {
    pub id: &'static str,
    pub level: &'static str,
    pub engine: &'static str,
    pub rule: &'static str,
    pub quick_runs: usize,
    pub thorough_runs: usize,
    /// wall-clock cap for one run (ms)
    pub run_cap_ms: u64,
    pub scen: ScenFn,
    /// optional extra phases (systematic sweeps); called after the random batch
    pub extra_phase: Option<fn(&mut Coord)>,
    pub real: &'static [&'static str],
    pub stub: &'static [&'static str],
    pub assumptions: &'static [&'static str],
}

#[derive(Debug, Clone, serde::Deserialize)]
pub struct Known {
    pub property: String,
    pub signature: String,
    pub status: String,
    pub what_fails: String,
    #[serde(default)]
    pub commit: String,
}

#[derive(Default)]
pub struct Agg {
    pub evaluations: u64,
    pub outcomes: BTreeMap<String, u64>,
    pub faults: BTreeMap<String, u64>,
    pub probes: BTreeMap<String, u64>,
    pub sched_sigs: HashSet<u64>,
    pub state_sigs: HashSet<u64>,
    pub virt_total_ns: u128,
    pub virt_max_ns: u64,
    pub completed: u64,
    pub nontrivial: u64,
    pub grants: u64,
    pub samples: Vec<serde_json::Value>,
    pub violations: Vec<(RunSpec, RunOut)>,
    pub harness: Vec<String>,
    pub budget: u64,
    pub hangs: Vec<RunSpec>,
    pub det_checked: u64,
    pub det_mismatch: u64,
    pub phases: Vec<serde_json::Value>,
}

pub struct Coord {
    pub def: &'static PropDef,
    pub tier: String,
    pub seed: u64,
    pub workers: usize,
    pub agg: Agg,
    pub t0: Instant,
    pub deadline: Instant,
    pub quiet: bool,
    /// runs that exceeded the wall-clock cap once and completed when executed again (machine stall, not a hang)
    pub stall_retries: std::cell::Cell<u64>,
}

pub fn verif_dir() -> String {
    std::env::var("VERIF_DIR").unwrap_or_else(|_| "/verif".to_string())
}

impl Coord {
    pub fn new(def: &'static PropDef, tier: &str, seed: u64) -> Coord {
        let workers = std::env::var("VERIF_WORKERS").ok().and_then(|s| s.parse().ok()).unwrap_or(16usize);
        let budget_s: u64 = std::env::var("VERIF_BUDGET_S")
            .ok()
            .and_then(|s| s.parse().ok())
            .unwrap_or(if tier == "quick" { 75 } else { 900 });
        Coord {
            def,
            tier: tier.to_string(),
            seed,
            workers,
            agg: Agg::default(),
            t0: Instant::now(),
            deadline: Instant::now() + Duration::from_secs(budget_s),
            quiet: false,
            stall_retries: std::cell::Cell::new(0),
        }
    }

    pub fn base_seed(&self) -> u64 {
        run::mix2(self.seed, super::sim::hash_str(self.def.id))
    }

    pub fn spec(&self, i: u64, variant: &str) -> RunSpec {
        RunSpec {
            prop: self.def.id.to_string(),
            seed: run::mix2(self.base_seed(), i),
            variant: variant.to_string(),
            ..Default::default()
        }
    }

    /// Run all specs (in parallel, results in spec order). Does not aggregate.
    /// A run killed at the wall-clock cap is executed once more, alone: a run is a pure function of its
    /// spec, so a genuine hang hangs again (and stays a harness error), while a run that was merely starved
    /// by a stalled machine completes and is counted in `stall_retries`.
    pub fn exec(&self, specs: &[RunSpec], stop_at_deadline: bool) -> Vec<Option<RunOut>> {
        let mut outs = self.exec_once(specs, stop_at_deadline);
        let hung: Vec<usize> = (0..specs.len()).filter(|i| outs[*i].as_ref().map(|o| o.outcome == "hang").unwrap_or(false)).collect();
        if !hung.is_empty() && hung.len() <= 64 {
            for i in hung {
                let again = self.exec_once(std::slice::from_ref(&specs[i]), false);
                if let Some(Some(o)) = again.into_iter().next() {
                    if o.outcome != "hang" {
                        self.stall_retries.set(self.stall_retries.get() + 1);
                        outs[i] = Some(o);
                    }
                }
            }
        }
        outs
    }

    fn exec_once(&self, specs: &[RunSpec], stop_at_deadline: bool) -> Vec<Option<RunOut>> {
        let n = specs.len();
        let mut outs: Vec<Option<RunOut>> = (0..n).map(|_| None).collect();
        let mut next = 0usize;
        let mut live: Vec<(Child, usize)> = Vec::new(); // (child, cpu slot)
        let ncpu = unsafe { libc::sysconf(libc::_SC_NPROCESSORS_ONLN) }.max(1) as usize;
        let mut free_slots: Vec<usize> = (0..self.workers).rev().collect();
        let cap = Duration::from_millis(self.def.run_cap_ms);
        loop {
            while next < n && !free_slots.is_empty() {
                if stop_at_deadline && Instant::now() > self.deadline {
                    next = n;
                    break;
                }
                let slot = free_slots.pop().unwrap();
                let c = run::fork_run(&specs[next], self.def.scen, slot % ncpu, next);
                live.push((c, slot));
                next += 1;
            }
            if live.is_empty() {
                break;
            }
            // poll
            let mut pfds: Vec<libc::pollfd> =
                live.iter().map(|(c, _)| libc::pollfd { fd: c.fd, events: libc::POLLIN, revents: 0 }).collect();
            unsafe { libc::poll(pfds.as_mut_ptr(), pfds.len() as libc::nfds_t, 50) };
            let mut i = 0;
            while i < live.len() {
                let eof = run::pump(&mut live[i].0);
                let timed_out = live[i].0.started.elapsed() > cap;
                if eof || timed_out {
                    let (c, slot) = live.remove(i);
                    let status = run::reap(&c, !eof);
                    free_slots.push(slot);
                    let out = if eof {
                        match serde_json::from_slice::<RunOut>(&c.buf) {
                            Ok(o) => o,
                            Err(_) => RunOut {
                                seed: specs[c.idx].seed,
                                variant: specs[c.idx].variant.clone(),
                                outcome: "died".into(),
                                harness_error: format!("child died without a result (wait status {status})"),
                                ..Default::default()
                            },
                        }
                    } else {
                        RunOut {
                            seed: specs[c.idx].seed,
                            variant: specs[c.idx].variant.clone(),
                            outcome: "hang".into(),
                            harness_error: format!("killed after {} ms wall", self.def.run_cap_ms),
                            ..Default::default()
                        }
                    };
                    outs[c.idx] = Some(out);
                } else {
                    i += 1;
                }
            }
        }
        outs
    }

    pub fn absorb(&mut self, spec: &RunSpec, out: RunOut) {
        let a = &mut self.agg;
        a.evaluations += 1;
        *a.outcomes.entry(out.outcome.clone()).or_insert(0) += 1;
        for (k, v) in &out.faults {
            *a.faults.entry(k.clone()).or_insert(0) += v;
        }
        for (k, v) in &out.probes {
            *a.probes.entry(k.clone()).or_insert(0) += v;
        }
        a.virt_total_ns += out.virt_ns as u128;
        a.virt_max_ns = a.virt_max_ns.max(out.virt_ns);
        a.grants += out.grants;
        if out.completed {
            a.completed += 1;
        }
        let fired: u64 = out.faults.values().sum();
        // a scenario may state its own rule ("strict"): then only its verdict counts
        let nontrivial = match out.extra.get("strict_nontrivial").and_then(|v| v.as_bool()) {
            Some(b) => out.completed && b,
            None => out.completed && (out.nontrivial || out.interleaved || fired > 0),
        };
        if nontrivial {
            a.nontrivial += 1;
            a.sched_sigs.insert(out.sched_sig ^ super::sim::hash_str(&spec.variant));
        }
        for s in &out.state_sigs {
            a.state_sigs.insert(*s);
        }
        match out.outcome.as_str() {
            "violation" => a.violations.push((spec.clone(), out)),
            "budget" => {
                a.budget += 1;
                if a.harness.len() < 5 {
                    a.harness.push(format!("seed {} variant {}: budget: {}", spec.seed, spec.variant, out.harness_error));
                }
            }
            "hang" | "died" | "harness" => {
                a.harness.push(format!("seed {} variant {}: {}: {}", spec.seed, spec.variant, out.outcome, out.harness_error));
                if out.outcome == "hang" {
                    a.hangs.push(spec.clone());
                }
            }
            _ => {
                if !out.trace.is_empty() && a.samples.len() < 3 && nontrivial {
                    a.samples.push(sample_of(spec, &out));
                }
            }
        }
    }

    /// Run and aggregate.
    pub fn run_batch(&mut self, specs: Vec<RunSpec>, phase: &str) -> Vec<Option<RunOut>> {
        let t = Instant::now();
        let outs = self.exec(&specs, true);
        let mut done = 0u64;
        for (s, o) in specs.iter().zip(outs.iter()) {
            if let Some(o) = o {
                done += 1;
                self.absorb(s, o.clone());
            }
        }
        self.agg.phases.push(json!({"phase": phase, "planned": specs.len(), "executed": done, "wall_s": t.elapsed().as_secs_f64()}));
        if !self.quiet {
            eprintln!(
                "[{}] phase {phase}: {done}/{} runs in {:.1}s",
                self.def.id,
                specs.len(),
                t.elapsed().as_secs_f64()
            );
        }
        outs
    }

    /// Re-run a sample of specs and compare event-log hashes.
    pub fn determinism_sample(&mut self, specs: &[RunSpec], firsts: &[Option<RunOut>]) {
        let pick: Vec<usize> = (0..specs.len()).filter(|i| firsts[*i].is_some()).collect();
        let again: Vec<RunSpec> = pick.iter().map(|i| specs[*i].clone()).collect();
        let outs = self.exec(&again, false);
        for (k, i) in pick.iter().enumerate() {
            if let (Some(a), Some(b)) = (&firsts[*i], &outs[k]) {
                if a.outcome == "hang" || b.outcome == "hang" {
                    continue;
                }
                self.agg.det_checked += 1;
                if a.log_hash != b.log_hash || a.outcome != b.outcome {
                    self.agg.det_mismatch += 1;
                    self.agg.harness.push(format!(
                        "determinism: seed {} variant {} differs between two executions ({:x}/{} vs {:x}/{})",
                        specs[*i].seed, specs[*i].variant, a.log_hash, a.outcome, b.log_hash, b.outcome
                    ));
                }
            }
        }
    }
}

fn abridge(trace: &[String], head: usize, tail: usize) -> Vec<String> {
    if trace.len() <= head + tail + 1 {
        return trace.to_vec();
    }
    let mut v: Vec<String> = trace[..head].to_vec();
    v.push(format!("... ({} lines omitted) ...", trace.len() - head - tail));
    v.extend_from_slice(&trace[trace.len() - tail..]);
    v
}

fn sample_of(spec: &RunSpec, out: &RunOut) -> serde_json::Value {
    json!({
        "seed": spec.seed,
        "variant": spec.variant,
        "grants": out.grants,
        "virtual_s": out.virt_ns as f64 / 1e9,
        "faults": out.faults,
        "trace_abridged": abridge(&out.trace, 40, 12),
    })
}

pub fn load_known(prop: &str) -> Vec<Known> {
    let p = format!("{}/known_findings.json", verif_dir());
    let Ok(s) = std::fs::read_to_string(&p) else { return vec![] };
    #[derive(serde::Deserialize)]
    struct F {
        findings: Vec<Known>,
    }
    match serde_json::from_str::<F>(&s) {
        Ok(f) => f.findings.into_iter().filter(|k| k.property == prop).collect(),
        Err(e) => {
            eprintln!("harness: cannot parse {p}: {e}");
            std::process::exit(2);
        }
    }
}

// ------------------------------- minimiser -----------------------------------

fn trim(v: &mut Vec<u32>) {
    while v.last() == Some(&0) {
        v.pop();
    }
}

/// Shrink (wtape, stape) while the same violation signature persists.
pub fn minimise(co: &Coord, spec: &RunSpec, out: &RunOut, sig: &str, budget: Duration) -> (RunSpec, RunOut, u64) {
    let t0 = Instant::now();
    let mut best_w = out.wtape.clone();
    let mut best_s = out.stape.clone();
    let mut best_out = out.clone();
    let mut tried = 0u64;
    let mk = |w: &Vec<u32>, s: &Vec<u32>| RunSpec {
        prop: spec.prop.clone(),
        seed: spec.seed,
        variant: spec.variant.clone(),
        wtape: Some(w.clone()),
        stape: Some(s.clone()),
        want_trace: false,
        want_tapes: true,
    };
    let same = |o: &Option<RunOut>| -> bool {
        match o {
            Some(o) => o.outcome == "violation" && o.violations.iter().any(|(s, _)| s == sig),
            None => false,
        }
    };
    // sanity: the recorded tapes must reproduce
    let chk = co.exec(&[mk(&best_w, &best_s)], false);
    tried += 1;
    if !same(&chk[0]) {
        return (mk(&best_w, &best_s), best_out, tried);
    }
    let mut progress = true;
    let mut round = 0;
    while progress && t0.elapsed() < budget && round < 6 {
        progress = false;
        round += 1;
        for which in 0..2 {
            // 0 = schedule tape, 1 = workload tape
            // (a) truncation candidates (suffix -> zeros), tried in parallel
            loop {
                let cur = if which == 0 { best_s.clone() } else { best_w.clone() };
                let n = cur.len();
                if n == 0 {
                    break;
                }
                let mut cands: Vec<Vec<u32>> = Vec::new();
                for k in [0usize, n / 8, n / 4, n / 2, n * 3 / 4, n * 7 / 8, n.saturating_sub(4), n.saturating_sub(1)] {
                    if k < n {
                        let mut c = cur[..k].to_vec();
                        trim(&mut c);
                        if c.len() < n && !cands.contains(&c) {
                            cands.push(c);
                        }
                    }
                }
                if cands.is_empty() {
                    break;
                }
                let specs: Vec<RunSpec> =
                    cands.iter().map(|c| if which == 0 { mk(&best_w, c) } else { mk(c, &best_s) }).collect();
                let outs = co.exec(&specs, false);
                tried += specs.len() as u64;
                let mut hit = None;
                for (i, o) in outs.iter().enumerate() {
                    if same(o) {
                        hit = Some(i);
                        break; // cands are ordered shortest first
                    }
                }
                match hit {
                    Some(i) => {
                        if which == 0 {
                            best_s = cands[i].clone();
                        } else {
                            best_w = cands[i].clone();
                        }
                        best_out = outs[i].clone().unwrap();
                        progress = true;
                    }
                    None => break,
                }
                if t0.elapsed() > budget {
                    break;
                }
            }
            // (b) zero blocks
            let mut block = {
                let n = if which == 0 { best_s.len() } else { best_w.len() };
                (n / 2).max(1)
            };
            while block >= 1 && t0.elapsed() < budget {
                let cur = if which == 0 { best_s.clone() } else { best_w.clone() };
                let n = cur.len();
                let mut cands: Vec<Vec<u32>> = Vec::new();
                let mut start = 0;
                while start < n {
                    let end = (start + block).min(n);
                    if cur[start..end].iter().any(|x| *x != 0) {
                        let mut c = cur.clone();
                        for x in c[start..end].iter_mut() {
                            *x = 0;
                        }
                        trim(&mut c);
                        cands.push(c);
                    }
                    start = end;
                }
                let mut changed = false;
                for chunk in cands.chunks(co.workers.max(1)) {
                    let specs: Vec<RunSpec> =
                        chunk.iter().map(|c| if which == 0 { mk(&best_w, c) } else { mk(c, &best_s) }).collect();
                    let outs = co.exec(&specs, false);
                    tried += specs.len() as u64;
                    if let Some(i) = outs.iter().position(same) {
                        if which == 0 {
                            best_s = chunk[i].clone();
                        } else {
                            best_w = chunk[i].clone();
                        }
                        best_out = outs[i].clone().unwrap();
                        progress = true;
                        changed = true;
                        break; // recompute candidates against the new best
                    }
                    if t0.elapsed() > budget {
                        break;
                    }
                }
                if !changed {
                    if block == 1 {
                        break;
                    }
                    block /= 2;
                }
            }
            // (c) lower individual values (halve / to 1)
            if t0.elapsed() < budget {
                let cur = if which == 0 { best_s.clone() } else { best_w.clone() };
                let mut cands: Vec<Vec<u32>> = Vec::new();
                for (i, v) in cur.iter().enumerate() {
                    if *v > 1 {
                        let mut c = cur.clone();
                        c[i] = 1;
                        cands.push(c);
                    }
                    if cands.len() >= 64 {
                        break;
                    }
                }
                for chunk in cands.chunks(co.workers.max(1)) {
                    let specs: Vec<RunSpec> =
                        chunk.iter().map(|c| if which == 0 { mk(&best_w, c) } else { mk(c, &best_s) }).collect();
                    let outs = co.exec(&specs, false);
                    tried += specs.len() as u64;
                    if let Some(i) = outs.iter().position(same) {
                        if which == 0 {
                            best_s = chunk[i].clone();
                        } else {
                            best_w = chunk[i].clone();
                        }
                        best_out = outs[i].clone().unwrap();
                        progress = true;
                    }
                    if t0.elapsed() > budget {
                        break;
                    }
                }
            }
        }
    }
    (mk(&best_w, &best_s), best_out, tried)
}

// ------------------------------ replay files ----------------------------------

pub fn write_replay(co: &Coord, spec: &RunSpec, sig: &str, original: &RunOut, minimised: bool, tried: u64) -> String {
    // final confirming run with the full trace, in a fresh child
    let mut s = spec.clone();
    s.want_trace = true;
    s.want_tapes = true;
    let outs = co.exec(&[s.clone()], false);
    let (trace, detail, reproduced) = match &outs[0] {
        Some(o) => (
            o.trace.clone(),
            o.violations.iter().find(|(x, _)| x == sig).map(|(_, d)| d.clone()).unwrap_or_default(),
            o.violations.iter().any(|(x, _)| x == sig),
        ),
        None => (vec![], String::new(), false),
    };
    let dir = std::env::var("VERIF_REPLAY_DIR").unwrap_or_else(|_| format!("{}/replays", verif_dir()));
    let _ = std::fs::create_dir_all(&dir);
    let path = format!("{}/{}-{}-{:08x}.json", dir, co.def.id, spec.seed, super::sim::hash_str(sig) as u32);
    let repo_rev = std::process::Command::new("git")
        .args(["-C", "/repo", "describe", "--always", "--dirty"])
        .output()
        .ok()
        .map(|o| String::from_utf8_lossy(&o.stdout).trim().to_string())
        .unwrap_or_default();
    let v = json!({
        "property": co.def.id,
        "signature": sig,
        "detail": detail,
        "seed": spec.seed,
        "variant": spec.variant,
        "tier": co.tier,
        "repo_rev": repo_rev,
        "minimised": minimised,
        "minimiser_candidates_tried": tried,
        "original_tape_lengths": {"workload": original.wtape.len(), "schedule": original.stape.len()},
        "reproduced_in_fresh_process": reproduced,
        "wtape": spec.wtape,
        "stape": spec.stape,
        "trace": trace,
    });
    std::fs::write(&path, serde_json::to_vec_pretty(&v).unwrap()).expect("write replay");
    path
}

// -------------------------------- evidence ------------------------------------

pub fn write_evidence(co: &Coord, violations: u64, known_matched: &BTreeMap<String, u64>) {
    let a = &co.agg;
    let wall = co.t0.elapsed().as_secs_f64();
    let mut samples = a.samples.clone();
    if samples.is_empty() {
        samples.push(json!({"note": "no completed non-trivial run produced a sample trace in this invocation"}));
    }
    let v = json!({
        "property_id": co.def.id,
        "tier": co.tier,
        "seed": co.seed as i64 & 0x7fff_ffff_ffff_ffff,
        "level": co.def.level,
        "coverage": {
            "evaluations": a.evaluations,
            "distinct_nontrivial": a.sched_sigs.len(),
            "rule": co.def.rule,
            "samples": samples,
            "runs_completed_workload": a.completed,
            "runs_nontrivial": a.nontrivial,
            "completed_fraction": if a.evaluations > 0 { a.completed as f64 / a.evaluations as f64 } else { 0.0 },
            "outcomes": a.outcomes,
            "runs_per_hour": if wall > 0.0 { (a.evaluations as f64 / wall * 3600.0) as u64 } else { 0 },
            "seeds_per_hour": if wall > 0.0 { (a.evaluations as f64 / wall * 3600.0) as u64 } else { 0 },
            "virtual_seconds_total": (a.virt_total_ns / 1_000_000_000) as u64,
            "virtual_seconds_max": a.virt_max_ns / 1_000_000_000,
            "scheduler_grants": a.grants,
            "faults_fired": a.faults,
            "probes": a.probes,
            "distinct_state_sigs": a.state_sigs.len(),
            "phases": a.phases,
            "known_findings_matched": known_matched,
            "determinism_sample": {"runs_compared": a.det_checked, "mismatches": a.det_mismatch},
            "components_real": co.def.real,
            "components_stub": co.def.stub,
            "harness_notes": a.harness.iter().take(10).collect::<Vec<_>>(),
            "runs_re_executed_after_a_wall_clock_stall": co.stall_retries.get(),
        },
        "assumptions": co.def.assumptions,
        "wall_s": wall,
        "violations": violations,
    });
    let dir = format!("{}/evidence", verif_dir());
    let _ = std::fs::create_dir_all(&dir);
    let path = format!("{}/{}.json", dir, co.def.id);
    std::fs::write(&path, serde_json::to_vec_pretty(&v).unwrap()).expect("write evidence");
}

// --------------------------------- driver --------------------------------------

/// The whole check for one property; returns the process exit code.
pub fn check(def: &'static PropDef, tier: &str, seed: u64) -> i32 {
    let mut co = Coord::new(def, tier, seed);
    println!("CHECK property={} tier={} VERIF_SEED={} level={}", def.id, tier, seed, def.level);
    let n = if tier == "quick" { def.quick_runs } else { def.thorough_runs };
    let mut specs: Vec<RunSpec> = (0..n as u64).map(|i| co.spec(i, "random")).collect();
    for s in specs.iter_mut().take(6) {
        s.want_trace = true;
    }
    // a check with a second phase (fault-position sweeps) keeps 45 % of its budget for it
    let full_deadline = co.deadline;
    if def.extra_phase.is_some() {
        co.deadline = co.t0 + full_deadline.duration_since(co.t0).mul_f64(0.55);
    }
    let outs = co.run_batch(specs.clone(), "random");
    co.deadline = full_deadline;
    if let Some(f) = def.extra_phase {
        f(&mut co);
    }
    // determinism sample
    let dn = if tier == "quick" { 24 } else { 200 };
    let dn = dn.min(specs.len());
    co.determinism_sample(&specs[..dn], &outs[..dn]);

    // triage violations
    let known = load_known(def.id);
    let mut known_matched: BTreeMap<String, u64> = BTreeMap::new();
    let mut unknown: BTreeMap<String, Vec<usize>> = BTreeMap::new();
    for (i, (_, out)) in co.agg.violations.iter().enumerate() {
        // a run counts as known only if every violation signature in it is an open known finding
        let mut all_known = true;
        for (sig, _) in &out.violations {
            if known.iter().any(|k| k.status == "open" && &k.signature == sig) {
                *known_matched.entry(sig.clone()).or_insert(0) += 1;
            } else {
                all_known = false;
                let e = unknown.entry(sig.clone()).or_default();
                if e.last() != Some(&i) {
                    e.push(i);
                }
            }
        }
        let _ = all_known;
    }
    let mut exit = 0;
    let mut nviol = 0u64;
    for k in known.iter().filter(|k| k.status == "open") {
        let m = known_matched.get(&k.signature).copied().unwrap_or(0);
        println!(
            "KNOWN-FINDING: property={} {} [signature {}; matched in {} runs of this invocation]",
            def.id, k.what_fails, k.signature, m
        );
    }
    let min_budget = Duration::from_secs(if tier == "quick" { 45 } else { 180 });
    // on request, also write a (minimised) replay file for each matched known finding
    if std::env::var("VERIF_KNOWN_REPLAYS").is_ok() {
        for k in known.iter().filter(|k| k.status == "open") {
            let pick = co.agg.violations.iter().filter(|(_, o)| o.violations.iter().any(|(s, _)| *s == k.signature)).min_by_key(|(_, o)| o.wtape.len() + o.stape.len()).cloned();
            if let Some((spec, out)) = pick {
                let (mspec, _mout, tried) = minimise(&co, &spec, &out, &k.signature, min_budget);
                let path = write_replay(&co, &mspec, &k.signature, &out, true, tried);
                println!("known finding {} replay written: {path}", k.signature);
            }
        }
    }
    for (sig, idxs) in unknown.iter().take(4) {
        nviol += idxs.len() as u64;
        // choose the run with the shortest tapes as the starting point
        let best = idxs
            .iter()
            .min_by_key(|i| {
                let o = &co.agg.violations[**i].1;
                o.wtape.len() + o.stape.len()
            })
            .unwrap();
        let (spec, out) = co.agg.violations[*best].clone();
        let (mspec, mout, tried) = minimise(&co, &spec, &out, sig, min_budget);
        let path = write_replay(&co, &mspec, sig, &out, true, tried);
        let detail = mout.violations.iter().find(|(s, _)| s == sig).map(|(_, d)| d.clone()).unwrap_or_default();
        println!("VIOLATION property={} replay={}", def.id, path);
        println!("  signature: {sig}");
        println!("  runs with this signature: {}", idxs.len());
        println!("  detail: {}", detail.chars().take(600).collect::<String>());
        exit = 1;
    }
    for (sig, idxs) in unknown.iter().skip(4) {
        nviol += idxs.len() as u64;
        println!("  (further signature not minimised: {sig}, {} runs)", idxs.len());
    }
    // harness problems: exit 2 unless a violation was found
    let hard: Vec<&String> = co.agg.harness.iter().filter(|h| !h.contains(": budget: ")).collect();
    let budget_frac = if co.agg.evaluations > 0 { co.agg.budget as f64 / co.agg.evaluations as f64 } else { 0.0 };
    write_evidence(&co, nviol, &known_matched);
    println!(
        "SUMMARY property={} runs={} completed={} nontrivial_distinct={} violations={} known_matched={} budget_exhausted={} wall={:.1}s",
        def.id,
        co.agg.evaluations,
        co.agg.completed,
        co.agg.sched_sigs.len(),
        nviol,
        known_matched.values().sum::<u64>(),
        co.agg.budget,
        co.t0.elapsed().as_secs_f64()
    );
    if exit == 0 && (!hard.is_empty() || budget_frac > 0.03 || co.agg.det_mismatch > 0) {
        for h in co.agg.harness.iter().take(10) {
            eprintln!("HARNESS: {h}");
        }
        eprintln!("harness error: {} hard problems, {:.0}% runs out of budget, {} determinism mismatches", hard.len(), budget_frac * 100.0, co.agg.det_mismatch);
        return 2;
    }
    exit
}

pub fn replay(def: &'static PropDef, path: &str) -> i32 {
    let s = std::fs::read_to_string(path).expect("read replay");
    let v: serde_json::Value = serde_json::from_str(&s).expect("parse replay");
    let spec = RunSpec {
        prop: def.id.to_string(),
        seed: v["seed"].as_u64().unwrap_or(0),
        variant: v["variant"].as_str().unwrap_or("random").to_string(),
        wtape: serde_json::from_value(v["wtape"].clone()).ok(),
        stape: serde_json::from_value(v["stape"].clone()).ok(),
        want_trace: true,
        want_tapes: true,
    };
    let sig = v["signature"].as_str().unwrap_or("").to_string();
    let co = Coord::new(def, "quick", 0);
    let outs = co.exec(&[spec], false);
    match &outs[0] {
        Some(o) => {
            for l in &o.trace {
                println!("{l}");
            }
            println!("outcome: {}", o.outcome);
            for (s, d) in &o.violations {
                println!("violation {s}: {d}");
            }
            if !o.harness_error.is_empty() {
                println!("harness: {}", o.harness_error);
            }
            if o.violations.iter().any(|(s, _)| *s == sig) {
                println!("VIOLATION property={} replay={}", def.id, path);
                1
            } else if o.outcome == "violation" {
                println!("a different violation than the recorded signature {sig}");
                1
            } else {
                println!("recorded violation {sig} did NOT reproduce");
                0
            }
        }
        None => 2,
    }
}

/// Determinism audit: n seeds, each executed twice, at several worker counts.
/// Print (seed, log hash, outcome) of the first `n` random-phase runs (the other half of the fresh-process audit).
pub fn audit_dump(def: &'static PropDef, n: usize, seed: u64) -> i32 {
    let mut co = Coord::new(def, "quick", seed);
    co.workers = 16;
    co.quiet = true;
    let specs: Vec<RunSpec> = (0..n as u64).map(|i| co.spec(i, "random")).collect();
    let a = co.exec(&specs, false);
    for (sp, o) in specs.iter().zip(a.iter()) {
        if let Some(o) = o {
            println!("DUMP {} {:x} {}", sp.seed, o.log_hash, o.outcome);
        }
    }
    0
}

pub fn audit(def: &'static PropDef, n: usize, seed: u64) -> i32 {
    let mut bad = 0;
    let mut total = 0;
    for workers in [1usize, 4, 16] {
        let mut co = Coord::new(def, "quick", seed);
        co.workers = workers;
        co.quiet = true;
        let nn = if workers == 1 { n / 8 + 1 } else { n };
        let specs: Vec<RunSpec> = (0..nn as u64).map(|i| co.spec(i, "random")).collect();
        let a = co.exec(&specs, false);
        co.determinism_sample(&specs, &a);
        total += co.agg.det_checked;
        bad += co.agg.det_mismatch;
        for h in co.agg.harness.iter().take(5) {
            println!("{h}");
        }
    }
    // the same seeds in a fresh process (different address-space layout, different parent): catches sources the
    // in-process repeat shares with the first execution (ASLR-derived hash keys, state inherited from the parent)
    {
        let mut co = Coord::new(def, "quick", seed);
        co.workers = 16;
        co.quiet = true;
        let specs: Vec<RunSpec> = (0..n as u64).map(|i| co.spec(i, "random")).collect();
        let a = co.exec(&specs, false);
        let exe = std::env::current_exe().expect("own path");
        let out = std::process::Command::new(exe).args(["audit-dump", def.id, &n.to_string()]).env("VERIF_SEED", seed.to_string()).output();
        match out {
            Ok(o) => {
                let text = String::from_utf8_lossy(&o.stdout).to_string();
                let theirs: std::collections::BTreeMap<u64, (u64, String)> = text
                    .lines()
                    .filter_map(|l| {
                        let mut it = l.split_whitespace();
                        if it.next()? != "DUMP" {
                            return None;
                        }
                        Some((it.next()?.parse().ok()?, (u64::from_str_radix(it.next()?, 16).ok()?, it.next()?.to_string())))
                    })
                    .collect();
                let mut cross = 0;
                for (sp, o) in specs.iter().zip(a.iter()) {
                    if let (Some(o), Some((h, oc))) = (o, theirs.get(&sp.seed)) {
                        if o.outcome == "hang" || oc == "hang" {
                            continue;
                        }
                        cross += 1;
                        total += 1;
                        if o.log_hash != *h || &o.outcome != oc {
                            bad += 1;
                            println!("determinism (fresh process): seed {} differs ({:x}/{} vs {:x}/{})", sp.seed, o.log_hash, o.outcome, h, oc);
                        }
                    }
                }
                println!("AUDIT property={} fresh-process pairs compared={cross}", def.id);
            }
            Err(e) => {
                println!("AUDIT could not start a fresh process: {e}");
                return 2;
            }
        }
    }
    println!("AUDIT property={} compared={} mismatches={}", def.id, total, bad);
    if bad > 0 {
        2
    } else {
        0
    }
}
