//! The simulator proper: interposed clock / entropy, decision tapes, gates,
//! the quiescence scheduler (tokio `on_thread_park`), crash / stall / fault
//! decisions, the event log.
//!
//! Everything lives in thread-locals of the single simulation thread of a
//! forked child process; one process = one run.

use std::cell::{Cell, RefCell};
use std::collections::{BTreeMap, HashMap};
use std::future::Future;
use std::pin::Pin;
use std::task::{Context, Poll, Waker};
use std::time::Duration;

pub const EPOCH_NS: u64 = 1_700_000_000_000_000_000;
const MONO_BASE_NS: u64 = 1_000_000_000_000;

thread_local! {
    static SIM_ACTIVE: Cell<bool> = const { Cell::new(false) };
    static SIM_NOW_NS: Cell<u64> = const { Cell::new(0) };
    static WALL_JUMP_NS: Cell<i64> = const { Cell::new(0) };
    static ENTROPY: Cell<u64> = const { Cell::new(0x9E3779B97F4A7C15) };
    static SIM: RefCell<Option<SimState>> = const { RefCell::new(None) };
    static START: Cell<Option<tokio::time::Instant>> = const { Cell::new(None) };
}

// ---------------------------------------------------------------------------
// libc interposition: every clock read and every entropy read on the sim thread
// ---------------------------------------------------------------------------

#[no_mangle]
pub unsafe extern "C" fn getrandom(buf: *mut u8, len: usize, flags: u32) -> isize {
    let active = SIM_ACTIVE.try_with(|a| a.get()).unwrap_or(false);
    if active {
        ENTROPY.with(|r| {
            let mut x = r.get();
            for i in 0..len {
                x ^= x << 13;
                x ^= x >> 7;
                x ^= x << 17;
                *buf.add(i) = (x >> 24) as u8;
            }
            r.set(x);
        });
        len as isize
    } else {
        libc::syscall(libc::SYS_getrandom, buf, len, flags) as isize
    }
}

#[no_mangle]
pub unsafe extern "C" fn clock_gettime(clk: libc::clockid_t, ts: *mut libc::timespec) -> libc::c_int {
    let active = SIM_ACTIVE.try_with(|a| a.get()).unwrap_or(false);
    if active {
        let now = SIM_NOW_NS.with(|n| n.get());
        let t = if clk == libc::CLOCK_REALTIME || clk == libc::CLOCK_REALTIME_COARSE {
            let j = WALL_JUMP_NS.with(|j| j.get());
            ((EPOCH_NS + now) as i64 + j) as u64
        } else {
            MONO_BASE_NS + now
        };
        (*ts).tv_sec = (t / 1_000_000_000) as i64;
        (*ts).tv_nsec = (t % 1_000_000_000) as i64;
        0
    } else {
        libc::syscall(libc::SYS_clock_gettime, clk, ts) as libc::c_int
    }
}

// ---------------------------------------------------------------------------
// ahash (arrow / parquet / datafusion hash tables): its per-table keys come from a process-wide
// counter that starts at a static's address and is bumped by a heap address (ASLR- and
// allocator-dependent), mixed with seeds read once per process from getrandom. Both are put
// behind the simulator: the fixed seeds are drawn under a constant entropy stream at start-up,
// the counter is a static the child resets from the run's seed.
// ---------------------------------------------------------------------------
static AHASH_CTR: std::sync::atomic::AtomicUsize = std::sync::atomic::AtomicUsize::new(0);
static HASH_ADVERSARIAL: std::sync::atomic::AtomicBool = std::sync::atomic::AtomicBool::new(false);
static HASH_ADV_IDX: std::sync::atomic::AtomicUsize = std::sync::atomic::AtomicUsize::new(0);
static HASH_ADV_POOL: std::sync::OnceLock<Vec<usize>> = std::sync::OnceLock::new();
thread_local! {
    static HASH_FORCE_NEXT: Cell<Option<usize>> = const { Cell::new(None) };
}
struct SimHashSource;
impl ahash::random_state::RandomSource for SimHashSource {
    fn gen_hasher_seed(&self) -> usize {
        use std::sync::atomic::Ordering::Relaxed;
        if let Some(c) = HASH_FORCE_NEXT.try_with(|f| f.take()).ok().flatten() {
            return c;
        }
        if HASH_ADVERSARIAL.load(Relaxed) {
            if let Some(p) = HASH_ADV_POOL.get() {
                return p[HASH_ADV_IDX.fetch_add(1, Relaxed) % p.len()];
            }
        }
        AHASH_CTR.fetch_add(0x9E37_79B9_7F4A_7C15usize, Relaxed)
    }
}
/// Call first thing in `main` (before anything builds an ahash table).
pub fn install_hash_source() {
    let r = ahash::random_state::set_random_source(SimHashSource);
    assert!(r.is_ok(), "ahash random source was already initialised");
    activate(0x5EED_A4A5_0000_0001);
    let _ = ahash::RandomState::new(); // draws ahash's once-per-process fixed seeds from the constant stream
    deactivate();
    let _ = adversarial_hash_pool(); // computed once here so that forked children inherit it
}
/// Per run: the sequence of ahash table keys is a function of the run's seed.
pub fn reset_hash_source(seed: u64) {
    use std::sync::atomic::Ordering::Relaxed;
    AHASH_CTR.store(seed as usize, Relaxed);
    HASH_ADVERSARIAL.store(false, Relaxed);
    HASH_ADV_IDX.store((seed % 16) as usize, Relaxed);
}
/// The ahash state that the n-th table would get for source value `c`.
fn hash_state_for(c: usize) -> ahash::RandomState {
    HASH_FORCE_NEXT.with(|f| f.set(Some(c)));
    ahash::RandomState::new()
}
/// Would a hashbrown table of `buckets` slots (16-wide groups, 7-bit tags) present `first`'s slot as a
/// candidate when `second` is looked up? (That is when the table's equality closure gets to compare them.)
fn presents_as_candidate(st: &ahash::RandomState, first: &[u8], second: &[u8], buckets: u64) -> bool {
    use std::hash::BuildHasher;
    let (ha, hb) = (st.hash_one(first), st.hash_one(second));
    if ha >> 57 != hb >> 57 {
        return false;
    }
    let mask = buckets - 1;
    ((ha & mask).wrapping_sub(hb & mask) & mask) < 16
}
/// Legal-but-unlucky hash keys ("buggify" for the hash seam): keys under which the byte strings of +0.0
/// and -0.0 (f64) meet in one probe group with equal tags in a 4096-capacity table - the situation in which a
/// hash table that hashes bytes but compares with `==` treats the two as the same entry. Such keys occur about
/// once per 30 000 tables in production; in adversarial runs every table gets one.
pub fn adversarial_hash_pool() -> &'static Vec<usize> {
    HASH_ADV_POOL.get_or_init(|| {
        let (p, n) = (0.0f64.to_le_bytes(), (-0.0f64).to_le_bytes());
        let mut out = Vec::new();
        let mut c: usize = 0x1234_5678;
        // 8 keys for each insertion order, interleaved
        let (mut pn, mut np) = (Vec::new(), Vec::new());
        while pn.len() < 8 || np.len() < 8 {
            c = c.wrapping_add(0x9E37_79B9_7F4A_7C15usize);
            let st = hash_state_for(c);
            if pn.len() < 8 && presents_as_candidate(&st, &p[..], &n[..], 8192) {
                pn.push(c);
            } else if np.len() < 8 && presents_as_candidate(&st, &n[..], &p[..], 8192) {
                np.push(c);
            }
        }
        for i in 0..8 {
            out.push(pn[i]);
            out.push(np[i]);
        }
        out
    })
}
pub fn debug_hash_probe(seed: u64) {
    use std::hash::BuildHasher;
    let (p, n) = (0.0f64.to_le_bytes(), (-0.0f64).to_le_bytes());
    for j in 0..24usize {
        let c = (seed as usize).wrapping_add(j.wrapping_mul(0x9E37_79B9_7F4A_7C15usize));
        let st = hash_state_for(c);
        let (hp, hn) = (st.hash_one(&p[..]), st.hash_one(&n[..]));
        println!("j={j} h(+0)={hp:016x} h(-0)={hn:016x} tag {} {} pos {} {} cand(n then p)={} cand(p then n)={}", hp >> 57, hn >> 57, hp & 8191, hn & 8191, presents_as_candidate(&st, &n[..], &p[..], 8192), presents_as_candidate(&st, &p[..], &n[..], 8192));
    }
    println!("pool: {:?}", adversarial_hash_pool());
}
/// Switch adversarial hash keys on for the rest of this run (a per-run swarm choice of the scenario).
pub fn set_adversarial_hash(on: bool) {
    if on {
        let _ = adversarial_hash_pool();
        fault_fired("adversarial_hash_keys");
    }
    HASH_ADVERSARIAL.store(on, std::sync::atomic::Ordering::Relaxed);
}

// ---------------------------------------------------------------------------
// fsync of a DIRECTORY (what makes the entry of a newly created file durable) is observed, not altered:
// the disk model learns which directory was synced.
// ---------------------------------------------------------------------------
thread_local! {
    pub static DIR_SYNC_HOOK: RefCell<Option<Box<dyn Fn(&std::path::Path)>>> = const { RefCell::new(None) };
}
#[no_mangle]
pub unsafe extern "C" fn fsync(fd: libc::c_int) -> libc::c_int {
    let active = SIM_ACTIVE.try_with(|a| a.get()).unwrap_or(false);
    if active {
        let mut st: libc::stat = std::mem::zeroed();
        if libc::fstat(fd, &mut st) == 0 && (st.st_mode & libc::S_IFMT) == libc::S_IFDIR {
            if let Ok(p) = std::fs::read_link(format!("/proc/self/fd/{fd}")) {
                let _ = DIR_SYNC_HOOK.try_with(|h| {
                    if let Some(f) = h.borrow().as_ref() {
                        f(&p)
                    }
                });
            }
        }
    }
    libc::syscall(libc::SYS_fsync, fd) as libc::c_int
}

pub fn activate(entropy_seed: u64) {
    SIM_ACTIVE.with(|a| a.set(true));
    ENTROPY.with(|r| r.set(entropy_seed | 1));
}
pub fn deactivate() {
    SIM_ACTIVE.with(|a| a.set(false));
}
pub fn is_active() -> bool {
    SIM_ACTIVE.with(|a| a.get())
}

pub fn sync_clock() -> bool {
    if let Some(s) = START.with(|s| s.get()) {
        let el = tokio::time::Instant::now().duration_since(s).as_nanos() as u64;
        let old = SIM_NOW_NS.with(|n| n.replace(el));
        return old != el;
    }
    false
}
pub fn now_ns() -> u64 {
    sync_clock();
    SIM_NOW_NS.with(|n| n.get())
}
/// Wall clock (unix ns) as the system under test sees it.
pub fn wall_ns() -> i64 {
    (EPOCH_NS + now_ns()) as i64 + WALL_JUMP_NS.with(|j| j.get())
}
pub fn jump_wall_clock(delta_ns: i64) {
    WALL_JUMP_NS.with(|j| j.set(j.get() + delta_ns));
    log(format!("CLOCK wall jump {delta_ns}ns"));
    fault_fired("clock_jump");
}

// ---------------------------------------------------------------------------
// Decision tapes
// ---------------------------------------------------------------------------

pub struct Tape {
    replay: Option<Vec<u32>>,
    pos: usize,
    rng: u64,
    pub rec: Vec<u32>,
}
impl Tape {
    pub fn random(seed: u64) -> Self {
        Tape { replay: None, pos: 0, rng: seed | 1, rec: Vec::new() }
    }
    pub fn replay(v: Vec<u32>) -> Self {
        Tape { replay: Some(v), pos: 0, rng: 1, rec: Vec::new() }
    }
    /// A value in `[0, bound)`. 0 is always the "simplest" choice.
    pub fn draw(&mut self, bound: u32) -> u32 {
        let bound = bound.max(1);
        let v = match &self.replay {
            Some(r) => {
                let v = r.get(self.pos).copied().unwrap_or(0);
                self.pos += 1;
                v % bound
            }
            None => {
                let mut x = self.rng;
                x ^= x << 13;
                x ^= x >> 7;
                x ^= x << 17;
                self.rng = x;
                ((x >> 16) % bound as u64) as u32
            }
        };
        self.rec.push(v);
        v
    }
}

// ---------------------------------------------------------------------------
// State
// ---------------------------------------------------------------------------

#[derive(Debug, Clone, Copy, PartialEq, Eq)]
pub enum GateClass {
    /// object-store / catalog request, before its effect (fault eligible)
    Store,
    /// after the effect of a request (response in flight)
    Post,
    /// named pause point or scenario-level gate
    Pause,
}

#[derive(Debug, Clone, Copy, PartialEq, Eq)]
pub enum Fault {
    None,
    FailBefore,
    FailAfter,
    Delay(u64),
    CrashBefore,
    CrashAfter,
    /// a GET succeeds as a request but its body stream breaks after this many percent of the bytes
    BodyBreak(u32),
}

#[derive(Debug, Clone)]
pub struct Cfg {
    /// master switch for all injected events (crash, stall, faults, advance)
    pub enabled: bool,
    /// percent of decisions (with gates parked) that let time advance instead
    pub adv_pct: u32,
    /// tick lengths (ms) to choose from on an "advance" decision
    pub ticks_ms: Vec<u64>,
    pub crash_pm: u32,
    pub crash_budget: u32,
    pub crashable: Vec<u32>,
    pub stall_pm: u32,
    pub stall_budget: u32,
    pub stall_nodes: Vec<u32>,
    pub stall_ms: Vec<u64>,
    pub fail_before_pm: u32,
    pub fail_after_pm: u32,
    pub delay_pm: u32,
    pub delay_ms: Vec<u64>,
    /// per-mille of read requests whose body stream breaks part-way (connection reset mid-body)
    pub body_break_pm: u32,
    /// per-mille (per fault-eligible request) of the start of an outage: the next `outage_len` requests of that
    /// node all fail before taking effect (the node is cut off from the store for a while)
    pub outage_pm: u32,
    pub outage_len: Vec<u32>,
    pub outage_budget: u32,
    pub fault_budget: u32,
    /// nodes whose store requests may receive faults (empty = all)
    pub fault_nodes: Vec<u32>,
    /// emit a second gate after the effect of each store request
    pub post_gates: bool,
    /// a single forced fault at the n-th (0-based) fault-eligible store gate
    pub forced: Option<(u64, Fault)>,
    pub max_grants: u64,
    pub max_virtual_ns: u64,
    pub idle_tick_ms: u64,
    /// adversarial bias: while another node has an eligible gate, this node's gates are passed over
    /// in `starve_pct` percent of the decisions (drives CAS retry exhaustion)
    pub starve_node: Option<u32>,
    pub starve_pct: u32,
}
impl Default for Cfg {
    fn default() -> Self {
        Cfg {
            enabled: true,
            adv_pct: 5,
            ticks_ms: vec![10, 1_000, 30_000, 120_000, 400_000],
            crash_pm: 0,
            crash_budget: 0,
            crashable: vec![],
            stall_pm: 0,
            stall_budget: 0,
            stall_nodes: vec![],
            stall_ms: vec![1_000, 61_000, 301_000, 400_000],
            fail_before_pm: 0,
            fail_after_pm: 0,
            delay_pm: 0,
            delay_ms: vec![1, 100, 5_000, 90_000],
            body_break_pm: 0,
            outage_pm: 0,
            outage_len: vec![3, 8, 20],
            outage_budget: 0,
            fault_budget: 0,
            fault_nodes: vec![],
            post_gates: false,
            forced: None,
            max_grants: 20_000,
            max_virtual_ns: 6 * 3600 * 1_000_000_000,
            idle_tick_ms: 60_000,
            starve_node: None,
            starve_pct: 85,
        }
    }
}

struct Parked {
    id: u64,
    node: u32,
    inc: u64,
    class: GateClass,
    site: String,
    waker: Waker,
}

pub struct SimState {
    pub wtape: Tape,
    pub stape: Tape,
    pub cfg: Cfg,
    parked: Vec<Parked>,
    granted: HashMap<u64, Fault>,
    next_gate: u64,
    pub inc: Vec<u64>,
    stalled_until: Vec<u64>,
    pub log: Vec<String>,
    pub keep_log: bool,
    log_hash: u64,
    pub ev: u64,
    pub grants: u64,
    pub store_gate_ord: u64,
    /// requests still to fail in the current outage, per node
    pub outage_left: BTreeMap<u32, u32>,
    pub faults: BTreeMap<String, u64>,
    pub probes: BTreeMap<String, u64>,
    pub sched_sig: u64,
    pub state_sigs: Vec<u64>,
    pub violations: Vec<(String, String)>,
    pub panics: Vec<String>,
    pub interleaved: bool,
    last_grant_node: Option<u32>,
    advancing: bool,
    tick_request: Option<u64>,
    ticker_waker: Option<Waker>,
    pub abort: Option<String>,
    abort_waker: Option<Waker>,
    crash_wakers: Vec<(u32, Waker)>,
    pub crash_pending: Vec<u32>,
    park_calls: u64,
    pub fs_node: Option<u32>,
    pub pause_node: u32,
    /// pause sites that only the scenarios naming them stop at (other scenarios' schedules stay as they were)
    pub opt_in_pause_sites: Vec<&'static str>,
    pub completed: bool,
    pub nontrivial: bool,
    pub extra: BTreeMap<String, serde_json::Value>,
}

impl SimState {
    pub fn log_hash_value(&self) -> u64 {
        self.log_hash
    }
}

pub fn install(wtape: Tape, stape: Tape, keep_log: bool) {
    let st = SimState {
        wtape,
        stape,
        cfg: Cfg::default(),
        parked: Vec::new(),
        granted: HashMap::new(),
        next_gate: 0,
        inc: vec![0; 16],
        stalled_until: vec![0; 16],
        log: Vec::new(),
        keep_log,
        log_hash: 0xcbf29ce484222325,
        ev: 0,
        grants: 0,
        store_gate_ord: 0,
        outage_left: BTreeMap::new(),
        faults: BTreeMap::new(),
        probes: BTreeMap::new(),
        sched_sig: 0xcbf29ce484222325,
        state_sigs: Vec::new(),
        violations: Vec::new(),
        panics: Vec::new(),
        interleaved: false,
        last_grant_node: None,
        advancing: false,
        tick_request: None,
        ticker_waker: None,
        abort: None,
        abort_waker: None,
        crash_wakers: Vec::new(),
        crash_pending: Vec::new(),
        park_calls: 0,
        fs_node: None,
        pause_node: 0,
        opt_in_pause_sites: Vec::new(),
        completed: false,
        nontrivial: false,
        extra: BTreeMap::new(),
    };
    SIM.with(|s| *s.borrow_mut() = Some(st));
}

pub fn with<R>(f: impl FnOnce(&mut SimState) -> R) -> R {
    SIM.with(|s| f(s.borrow_mut().as_mut().expect("sim not installed")))
}
pub fn try_with<R>(f: impl FnOnce(&mut SimState) -> R) -> Option<R> {
    SIM.try_with(|s| match s.try_borrow_mut() {
        Ok(mut g) => g.as_mut().map(f),
        Err(_) => None,
    })
    .ok()
    .flatten()
}
pub fn take_state() -> Option<SimState> {
    SIM.with(|s| s.borrow_mut().take())
}

fn fnv(h: u64, bytes: &[u8]) -> u64 {
    let mut h = h;
    for b in bytes {
        h ^= *b as u64;
        h = h.wrapping_mul(0x100000001b3);
    }
    h
}
pub fn hash_bytes(b: &[u8]) -> u64 {
    fnv(0xcbf29ce484222325, b)
}
pub fn hash_str(s: &str) -> u64 {
    fnv(0xcbf29ce484222325, s.as_bytes())
}

// ------------------------- public helpers ----------------------------------

/// workload draw
pub fn w(bound: u32) -> u32 {
    with(|s| s.wtape.draw(bound))
}
/// workload draw in [lo, hi]
pub fn w_range(lo: u32, hi: u32) -> u32 {
    lo + w(hi - lo + 1)
}
pub fn w_bool(pct_true: u32) -> bool {
    // 0 => false ("simplest")
    w(100) >= 100 - pct_true.min(100)
}
pub fn w_pick<T: Clone>(xs: &[T]) -> T {
    xs[w(xs.len() as u32) as usize].clone()
}
/// schedule / fault draw
pub fn s(bound: u32) -> u32 {
    with(|st| st.stape.draw(bound))
}
pub fn log(msg: String) {
    let t = SIM_NOW_NS.with(|n| n.get());
    try_with(|st| {
        st.ev += 1;
        let line = format!("[{:>6} t={:>12.6}s] {}", st.ev, t as f64 / 1e9, msg);
        st.log_hash = fnv(st.log_hash, line.as_bytes());
        if st.keep_log {
            st.log.push(line);
        }
    });
}
pub fn log_hash() -> u64 {
    with(|st| st.log_hash)
}
pub fn ev() -> u64 {
    with(|st| {
        st.ev += 1;
        st.ev
    })
}
pub fn probe(name: &str) {
    with(|st| *st.probes.entry(name.to_string()).or_insert(0) += 1);
}
pub fn probe_n(name: &str, n: u64) {
    with(|st| *st.probes.entry(name.to_string()).or_insert(0) += n);
}
pub fn fault_fired(kind: &str) {
    try_with(|st| *st.faults.entry(kind.to_string()).or_insert(0) += 1);
}
pub fn state_sig(sig: u64) {
    with(|st| {
        if st.state_sigs.len() < 64 {
            st.state_sigs.push(sig);
        }
    });
}
pub fn violation(sig: impl Into<String>, detail: impl Into<String>) {
    let (sig, detail) = (sig.into(), detail.into());
    log(format!("VIOLATION {sig}: {detail}"));
    with(|st| st.violations.push((sig, detail)));
}
pub fn set_cfg(f: impl FnOnce(&mut Cfg)) {
    with(|st| f(&mut st.cfg));
}
pub fn cfg() -> Cfg {
    with(|st| st.cfg.clone())
}
/// Ordinal the next fault-eligible store request will get (base for a `forced` fault relative to "now").
pub fn store_gate_ord() -> u64 {
    with(|st| st.store_gate_ord)
}
/// Switch all injected events off (final, fault-free phase of a run).
pub fn faults_off() {
    with(|st| {
        st.cfg.enabled = false;
        st.outage_left.clear();
        for x in st.stalled_until.iter_mut() {
            *x = 0;
        }
    });
    log("FAULTS OFF".into());
}
pub fn faults_on() {
    with(|st| st.cfg.enabled = true);
}
pub fn set_completed() {
    with(|st| st.completed = true);
}
pub fn set_nontrivial() {
    with(|st| st.nontrivial = true);
}
pub fn set_extra(k: &str, v: serde_json::Value) {
    with(|st| {
        st.extra.insert(k.to_string(), v);
    });
}
pub fn inc(node: u32) -> u64 {
    with(|st| st.inc[node as usize])
}
pub fn alive(node: u32, inc: u64) -> bool {
    with(|st| st.inc[node as usize] == inc)
}
pub fn set_fs_node(node: u32) {
    with(|st| st.fs_node = Some(node));
}
pub fn set_pause_node(node: u32) {
    with(|st| st.pause_node = node);
}
/// Sites listed in OPT_IN_PAUSE_SITES are scheduling points only after the scenario asked for them.
pub const OPT_IN_PAUSE_SITES: &[&str] = &["query.before_plan"];
pub fn enable_pause_site(site: &'static str) {
    with(|st| st.opt_in_pause_sites.push(site));
}

/// Kill a node: every gate / file operation of its current incarnation never completes.
pub fn crash(node: u32) {
    let wakers = with(|st| {
        st.inc[node as usize] += 1;
        if st.fs_node == Some(node) {
            cardinalsin::verif_hooks::FS_EPOCH.with(|e| e.set(e.get() + 1));
        }
        st.crash_pending.push(node);
        *st.faults.entry("crash".into()).or_insert(0) += 1;
        let mut ws = Vec::new();
        let mut i = 0;
        while i < st.crash_wakers.len() {
            if st.crash_wakers[i].0 == node {
                ws.push(st.crash_wakers.remove(i).1);
            } else {
                i += 1;
            }
        }
        // parked gates of the dead incarnation are dropped (never woken)
        let incs = st.inc.clone();
        st.parked.retain(|p| incs[p.node as usize] == p.inc);
        ws
    });
    log(format!("CRASH node={node}"));
    for w in ws_iter(wakers) {
        w.wake();
    }
}
fn ws_iter(v: Vec<Waker>) -> impl Iterator<Item = Waker> {
    v.into_iter()
}

/// Resolves the next time `node` crashes (or at once if a crash is pending).
pub fn wait_crash(node: u32) -> WaitCrash {
    WaitCrash { node }
}
pub struct WaitCrash {
    node: u32,
}
impl Future for WaitCrash {
    type Output = ();
    fn poll(self: Pin<&mut Self>, cx: &mut Context<'_>) -> Poll<()> {
        let node = self.node;
        with(|st| {
            if let Some(pos) = st.crash_pending.iter().position(|n| *n == node) {
                st.crash_pending.remove(pos);
                Poll::Ready(())
            } else {
                st.crash_wakers.retain(|(n, _)| *n != node);
                st.crash_wakers.push((node, cx.waker().clone()));
                Poll::Pending
            }
        })
    }
}
pub fn crash_pending(node: u32) -> bool {
    with(|st| st.crash_pending.contains(&node))
}
pub fn clear_crash_pending(node: u32) {
    with(|st| st.crash_pending.retain(|n| *n != node));
}

/// Resolves when the run must be abandoned (budget exhausted).
pub struct Aborted;
impl Future for Aborted {
    type Output = String;
    fn poll(self: Pin<&mut Self>, cx: &mut Context<'_>) -> Poll<String> {
        with(|st| {
            if let Some(a) = &st.abort {
                Poll::Ready(a.clone())
            } else {
                st.abort_waker = Some(cx.waker().clone());
                Poll::Pending
            }
        })
    }
}
fn request_abort(st: &mut SimState, why: String) {
    if st.abort.is_none() {
        st.abort = Some(why);
    }
    if let Some(w) = st.abort_waker.take() {
        w.wake();
    }
}

// ------------------------------- gates -------------------------------------

pub struct Gate {
    id: Option<u64>,
    node: u32,
    inc: u64,
    class: GateClass,
    site: String,
}
pub fn gate(node: u32, inc: u64, class: GateClass, site: impl Into<String>) -> Gate {
    Gate { id: None, node, inc, class, site: site.into() }
}
impl Future for Gate {
    type Output = Fault;
    fn poll(mut self: Pin<&mut Self>, cx: &mut Context<'_>) -> Poll<Fault> {
        let me = &mut *self;
        with(|st| {
            if st.inc[me.node as usize] != me.inc {
                // dead incarnation: never completes
                return Poll::Pending;
            }
            match me.id {
                None => {
                    let id = st.next_gate;
                    st.next_gate += 1;
                    me.id = Some(id);
                    st.parked.push(Parked {
                        id,
                        node: me.node,
                        inc: me.inc,
                        class: me.class,
                        site: std::mem::take(&mut me.site),
                        waker: cx.waker().clone(),
                    });
                    Poll::Pending
                }
                Some(id) => {
                    if let Some(f) = st.granted.remove(&id) {
                        me.id = None;
                        Poll::Ready(f)
                    } else {
                        for p in st.parked.iter_mut() {
                            if p.id == id {
                                p.waker = cx.waker().clone();
                            }
                        }
                        Poll::Pending
                    }
                }
            }
        })
    }
}
impl Drop for Gate {
    fn drop(&mut self) {
        if let Some(id) = self.id {
            try_with(|st| {
                st.parked.retain(|p| p.id != id);
                st.granted.remove(&id);
            });
        }
    }
}

/// Scenario-level scheduling point (no fault).
pub async fn yield_point(node: u32, site: &str) {
    let i = inc(node);
    gate(node, i, GateClass::Pause, site).await;
}

// ----------------------------- scheduler -----------------------------------

fn site_class(site: &str) -> &str {
    // abstract a site string "PUT metadata/catalog.json" to "PUT catalog"
    site
}

/// Called by tokio when no task is runnable.
pub fn on_park() {
    let mut to_crash: Option<u32> = None;
    let mut to_wake: Option<Waker> = None;
    let handled = try_with(|st| {
        st.park_calls += 1;
        if st.abort.is_some() {
            return;
        }
        if st.advancing {
            return;
        }
        let now = SIM_NOW_NS.with(|n| n.get());
        if now > st.cfg.max_virtual_ns {
            request_abort(st, format!("virtual time budget exceeded ({} s)", now / 1_000_000_000));
            return;
        }
        let incs = st.inc.clone();
        st.parked.retain(|p| incs[p.node as usize] == p.inc);
        loop {
        let eligible: Vec<usize> = st
            .parked
            .iter()
            .enumerate()
            .filter(|(_, p)| st.stalled_until[p.node as usize] <= now)
            .map(|(i, _)| i)
            .collect();
        if eligible.is_empty() {
            // idle: time advances to the next timer (system timer or the ticker)
            if !st.parked.is_empty() {
                // everything parked is stalled: make sure a tick lands at the earliest stall end
                let soon = st.parked.iter().map(|p| st.stalled_until[p.node as usize]).min().unwrap_or(now);
                let d = soon.saturating_sub(now).max(1_000_000) / 1_000_000;
                st.tick_request = Some(d);
                st.advancing = true;
                to_wake = st.ticker_waker.clone();
            }
            return;
        }
        if st.grants >= st.cfg.max_grants {
            request_abort(st, format!("grant budget exceeded ({})", st.grants));
            return;
        }
        if st.cfg.enabled {
            let has_crash = st.cfg.crash_budget > 0 && !st.cfg.crashable.is_empty() && st.cfg.crash_pm > 0;
            let has_stall = st.cfg.stall_budget > 0 && !st.cfg.stall_nodes.is_empty() && st.cfg.stall_pm > 0;
            let e = st.stape.draw(1000);
            let mut hi = 1000u32;
            if has_crash {
                let lo = hi - st.cfg.crash_pm.min(hi);
                if e >= lo {
                    let k = st.stape.draw(st.cfg.crashable.len() as u32) as usize;
                    st.cfg.crash_budget -= 1;
                    to_crash = Some(st.cfg.crashable[k]);
                    return;
                }
                hi = lo;
            }
            if has_stall {
                let lo = hi - st.cfg.stall_pm.min(hi);
                if e >= lo {
                    let k = st.stape.draw(st.cfg.stall_nodes.len() as u32) as usize;
                    let d = st.cfg.stall_ms[st.stape.draw(st.cfg.stall_ms.len() as u32) as usize];
                    let node = st.cfg.stall_nodes[k];
                    st.cfg.stall_budget -= 1;
                    st.stalled_until[node as usize] = now + d * 1_000_000;
                    *st.faults.entry("stall".into()).or_insert(0) += 1;
                    st.sched_sig = fnv(st.sched_sig, format!("stall{node}").as_bytes());
                    let line = format!("STALL node={node} for {d}ms");
                    push_log(st, now, line);
                    continue;
                }
                hi = lo;
            }
            let lo = hi - (st.cfg.adv_pct * 10).min(hi);
            if e >= lo && st.cfg.adv_pct > 0 {
                let d = st.cfg.ticks_ms[st.stape.draw(st.cfg.ticks_ms.len() as u32) as usize];
                st.tick_request = Some(d);
                st.advancing = true;
                to_wake = st.ticker_waker.clone();
                st.sched_sig = fnv(st.sched_sig, b"adv");
                push_log(st, now, format!("ADVANCE up to {d}ms"));
                return;
            }
        }
        // grant one gate
        let mut eligible = eligible;
        if let Some(v) = st.cfg.starve_node {
            let others: Vec<usize> = eligible.iter().cloned().filter(|i| st.parked[*i].node != v).collect();
            if !others.is_empty() && others.len() < eligible.len() && st.stape.draw(100) < st.cfg.starve_pct {
                eligible = others;
            }
        }
        let k = st.stape.draw(eligible.len() as u32) as usize;
        let p = st.parked.remove(eligible[k]);
        let mut fault = Fault::None;
        if p.class == GateClass::Store {
            let ord = st.store_gate_ord;
            let eligible_node = st.cfg.fault_nodes.is_empty() || st.cfg.fault_nodes.contains(&p.node);
            if eligible_node {
                st.store_gate_ord += 1;
            }
            // an outage in progress: this node's request fails whatever else would have been drawn
            let mut in_outage = false;
            if st.cfg.forced.is_none() && st.cfg.enabled && eligible_node {
                if let Some(left) = st.outage_left.get_mut(&p.node) {
                    if *left > 0 {
                        *left -= 1;
                        in_outage = true;
                    }
                }
                if !in_outage && st.cfg.outage_pm > 0 && st.cfg.outage_budget > 0 && st.stape.draw(1000) < st.cfg.outage_pm {
                    st.cfg.outage_budget -= 1;
                    let len = st.cfg.outage_len[st.stape.draw(st.cfg.outage_len.len() as u32) as usize];
                    st.outage_left.insert(p.node, len.saturating_sub(1));
                    *st.faults.entry("store_outage_started".into()).or_insert(0) += 1;
                    in_outage = true;
                }
            }
            if in_outage {
                fault = Fault::FailBefore;
                *st.faults.entry("store_request_failed_in_outage".into()).or_insert(0) += 1;
            } else if let Some((n, f)) = st.cfg.forced {
                if eligible_node && n == ord {
                    fault = f;
                }
            } else if st.cfg.enabled && eligible_node && st.cfg.fault_budget > 0 {
                let tot = st.cfg.fail_before_pm + st.cfg.fail_after_pm + st.cfg.delay_pm + st.cfg.body_break_pm;
                if tot > 0 {
                    let d = st.stape.draw(1000);
                    let a = 1000 - st.cfg.fail_before_pm.min(1000);
                    let b = a.saturating_sub(st.cfg.fail_after_pm);
                    let c = b.saturating_sub(st.cfg.delay_pm);
                    let e = c.saturating_sub(st.cfg.body_break_pm);
                    if d >= a {
                        fault = Fault::FailBefore;
                    } else if d >= b {
                        fault = Fault::FailAfter;
                    } else if d >= c {
                        let ms = st.cfg.delay_ms[st.stape.draw(st.cfg.delay_ms.len() as u32) as usize];
                        fault = Fault::Delay(ms);
                    } else if d >= e && p.site.starts_with("GET ") {
                        fault = Fault::BodyBreak([0u32, 10, 50, 90][st.stape.draw(4) as usize]);
                    }
                    if fault != Fault::None {
                        st.cfg.fault_budget -= 1;
                    }
                }
            }
        }
        match fault {
            Fault::None => {}
            Fault::FailBefore => *st.faults.entry("store_fail_before".into()).or_insert(0) += 1,
            Fault::FailAfter => *st.faults.entry("store_fail_after".into()).or_insert(0) += 1,
            Fault::Delay(_) => *st.faults.entry("store_delay".into()).or_insert(0) += 1,
            Fault::CrashBefore => *st.faults.entry("crash_before_request".into()).or_insert(0) += 1,
            Fault::CrashAfter => *st.faults.entry("crash_after_request".into()).or_insert(0) += 1,
            Fault::BodyBreak(_) => *st.faults.entry("store_get_body_breaks".into()).or_insert(0) += 1,
        }
        st.grants += 1;
        if let Some(l) = st.last_grant_node {
            if l != p.node && st.parked.iter().any(|q| q.node == l) {
                st.interleaved = true;
            }
        }
        if st.parked.iter().any(|q| q.node == p.node) || !st.parked.is_empty() {
            // somebody else was waiting while this one proceeded
            st.interleaved = true;
        }
        st.last_grant_node = Some(p.node);
        let abs = format!("{}:{}:{:?}", p.node, site_class(&abstract_site(&p.site)), fault);
        st.sched_sig = fnv(st.sched_sig, abs.as_bytes());
        let line = format!(
            "GRANT n{}#{} {:?} {}{}",
            p.node,
            p.inc,
            p.class,
            p.site,
            if fault == Fault::None { String::new() } else { format!("  <== FAULT {:?}", fault) }
        );
        push_log(st, now, line);
        st.granted.insert(p.id, fault);
        to_wake = Some(p.waker);
        return;
        }
    });
    let _ = handled;
    if let Some(n) = to_crash {
        crash(n);
    }
    if let Some(w) = to_wake {
        w.wake();
    }
    // spin detection is done by the parent's wall-clock watchdog
}


fn push_log(st: &mut SimState, now: u64, msg: String) {
    st.ev += 1;
    let line = format!("[{:>6} t={:>12.6}s] {}", st.ev, now as f64 / 1e9, msg);
    st.log_hash = fnv(st.log_hash, line.as_bytes());
    if st.keep_log {
        st.log.push(line);
    }
}

/// "PUT default/data/year=.../chunk_<uuid>.parquet" -> "PUT chunk"
pub fn abstract_site(site: &str) -> String {
    let mut it = site.splitn(2, ' ');
    let op = it.next().unwrap_or("");
    let rest = it.next().unwrap_or("");
    let class = if rest.contains("catalog") {
        "catalog"
    } else if rest.contains("lease") {
        "leases"
    } else if rest.contains("split-progress") {
        "splitprogress"
    } else if rest.contains("split") {
        "splitstate"
    } else if rest.contains("shards") {
        "shard"
    } else if rest.contains("pending-deletions") {
        "pending"
    } else if rest.contains(".parquet") {
        "chunk"
    } else if rest.is_empty() {
        ""
    } else {
        "other"
    };
    format!("{op} {class}")
}

pub fn on_unpark() {
    let moved = sync_clock();
    if moved {
        try_with(|st| st.advancing = false);
    }
}

// ------------------------------ ticker --------------------------------------

struct Ticker {
    sleep: Pin<Box<tokio::time::Sleep>>,
}
impl Future for Ticker {
    type Output = ();
    fn poll(mut self: Pin<&mut Self>, cx: &mut Context<'_>) -> Poll<()> {
        loop {
            let (req, idle) = with(|st| {
                st.ticker_waker = Some(cx.waker().clone());
                (st.tick_request.take(), st.cfg.idle_tick_ms)
            });
            if let Some(ms) = req {
                let dl = tokio::time::Instant::now() + Duration::from_millis(ms);
                self.sleep.as_mut().reset(dl);
            }
            match self.sleep.as_mut().poll(cx) {
                Poll::Ready(()) => {
                    with(|st| st.advancing = false);
                    let dl = tokio::time::Instant::now() + Duration::from_millis(idle);
                    self.sleep.as_mut().reset(dl);
                    continue;
                }
                Poll::Pending => return Poll::Pending,
            }
        }
    }
}

pub fn spawn_ticker() {
    START.with(|s| s.set(Some(tokio::time::Instant::now())));
    sync_clock();
    let idle = with(|st| st.cfg.idle_tick_ms);
    tokio::spawn(Ticker { sleep: Box::pin(tokio::time::sleep(Duration::from_millis(idle))) });
}

// ---------------------------- pause hook ------------------------------------

pub fn install_pause_hook() {
    cardinalsin::verif_hooks::PAUSE_HOOK.with(|h| {
        *h.borrow_mut() = Some(Box::new(|site: &'static str| {
            let (node, i) = with(|st| (st.pause_node, st.inc[st.pause_node as usize]));
            if OPT_IN_PAUSE_SITES.contains(&site) && !with(|st| st.opt_in_pause_sites.contains(&site)) {
                return Box::pin(async {});
            }
            Box::pin(async move {
                gate(node, i, GateClass::Pause, format!("PAUSE {site}")).await;
            })
        }));
    });
}

// --------------------------- poll budget -------------------------------------

/// Ends a future after `max` polls (liveness checks on async loops).
pub struct PollBudget<F> {
    pub f: Pin<Box<F>>,
    pub polls: u64,
    pub max: u64,
}
impl<F: Future> Future for PollBudget<F> {
    type Output = Option<F::Output>;
    fn poll(mut self: Pin<&mut Self>, cx: &mut Context<'_>) -> Poll<Self::Output> {
        self.polls += 1;
        if self.polls > self.max {
            return Poll::Ready(None);
        }
        match self.f.as_mut().poll(cx) {
            Poll::Ready(v) => Poll::Ready(Some(v)),
            Poll::Pending => Poll::Pending,
        }
    }
}
pub fn poll_budget<F: Future>(f: F, max: u64) -> PollBudget<F> {
    PollBudget { f: Box::pin(f), polls: 0, max }
}
