//! Simulated-disk controller behind the WAL's file-system shim
//! (`cardinalsin::verif_hooks::FS_HOOK`). Every shimmed fs call consults it.

use super::sim;
use cardinalsin::verif_hooks::{FsAction, FS_HOOK};
use std::cell::RefCell;

#[derive(Debug, Clone, Default)]
pub struct DiskCtl {
    pub node: u32,
    /// bytes that may still be written to WAL segments; the write that exceeds it is torn and the node dies
    pub write_budget: Option<u64>,
    /// die at the n-th (1-based, counted from arming) occurrence of this op kind: "open" | "sync" | "remove" | "std.write"
    pub die_on: Option<(String, u32, usize)>,
    /// fail the n-th occurrence of this op kind with errno
    pub fail_on: Option<(String, u32, i32)>,
    /// next segment write is short (legal partial write) by this many bytes
    pub short_next: Option<usize>,
    /// random faults drawn from the schedule tape (per-mille per op)
    pub rnd_eio_pm: u32,
    pub rnd_enospc_pm: u32,
    pub rnd_short_pm: u32,
    pub rnd_crash_pm: u32,
    /// extra per-mille of EIO on sync operations only (a failed fsync is the interesting disk error)
    pub rnd_sync_eio_pm: u32,
    pub rnd_budget: u32,
    pub ops: u64,
    pub bytes_written: u64,
    /// power-loss semantics for WAL segments: at a crash every segment file is cut back to the length
    /// it had at its last successful sync (bytes written but never synced are lost)
    pub power_loss: bool,
    pub synced_len: std::collections::BTreeMap<std::path::PathBuf, u64>,
    pub seen_files: std::collections::BTreeSet<std::path::PathBuf>,
    /// power-loss mode: byte ranges that were dirty when a sync of their file FAILED. Linux reports a
    /// write-back error once and marks the pages clean: a later successful sync does not make them durable
    /// ("fsyncgate"). At a power loss these ranges read as zeros.
    pub poisoned: Vec<(std::path::PathBuf, u64, u64)>,
    /// power-loss mode, strict directory durability: a newly created file exists after a power loss only if its
    /// directory was fsynced after the creation (POSIX promises nothing else; fsync of the file itself is about its
    /// data). Files created and not yet covered by a directory sync:
    pub dir_durability: bool,
    pub new_files: std::collections::BTreeSet<std::path::PathBuf>,
}

thread_local! {
    static DISK: RefCell<DiskCtl> = RefCell::new(DiskCtl::default());
}

pub fn with<R>(f: impl FnOnce(&mut DiskCtl) -> R) -> R {
    DISK.with(|d| f(&mut d.borrow_mut()))
}

pub fn scratch_dir(tag: &str) -> String {
    let d = format!("/dev/shm/verif-sim-{}/{}", std::process::id(), tag);
    let _ = std::fs::remove_dir_all(&d);
    std::fs::create_dir_all(&d).expect("scratch dir");
    d
}
pub fn cleanup_scratch() {
    let d = format!("/dev/shm/verif-sim-{}", std::process::id());
    let _ = std::fs::remove_dir_all(d);
}

/// Apply power-loss semantics to the WAL segments (called when the node dies).
pub fn apply_power_loss() {
    with(|d| {
        if !d.power_loss {
            return;
        }
        if d.dir_durability {
            for f in std::mem::take(&mut d.new_files) {
                if std::fs::remove_file(&f).is_ok() {
                    sim::fault_fired("power_loss_new_file_without_dir_sync_vanished");
                }
            }
        }
        // (each such range is lost once: what the file holds after this power loss is what is on the disk, and bytes
        // written and synced there by a later incarnation are as durable as any others)
        for (f, from, to) in std::mem::take(&mut d.poisoned) {
            if let Ok(md) = std::fs::metadata(&f) {
                let to = to.min(md.len());
                if to > from {
                    use std::io::{Seek, SeekFrom, Write};
                    if let Ok(mut h) = std::fs::OpenOptions::new().write(true).open(&f) {
                        let _ = h.seek(SeekFrom::Start(from));
                        let _ = h.write_all(&vec![0u8; (to - from) as usize]);
                        sim::fault_fired("power_loss_dropped_pages_of_a_failed_sync");
                    }
                }
            }
        }
        let files: Vec<std::path::PathBuf> = d.seen_files.iter().cloned().collect();
        for f in files {
            let keep = d.synced_len.get(&f).copied().unwrap_or(0);
            if let Ok(md) = std::fs::metadata(&f) {
                if md.len() > keep {
                    if let Ok(h) = std::fs::OpenOptions::new().write(true).open(&f) {
                        let _ = h.set_len(keep);
                        sim::fault_fired("power_loss_dropped_unsynced_bytes");
                    }
                }
            }
        }
    });
}

fn die(d: &mut DiskCtl, what: &str) {
    let node = d.node;
    d.write_budget = None;
    d.die_on = None;
    sim::fault_fired(what);
    sim::crash(node);
}

pub fn install(node: u32) {
    with(|d| {
        *d = DiskCtl { node, ..Default::default() };
    });
    sim::set_fs_node(node);
    sim::DIR_SYNC_HOOK.with(|h| {
        *h.borrow_mut() = Some(Box::new(|dir: &std::path::Path| {
            DISK.with(|d| {
                let mut d = d.borrow_mut();
                let before = d.new_files.len();
                d.new_files.retain(|f| f.parent() != Some(dir));
                if d.new_files.len() < before {
                    sim::probe("dir-sync-made-new-file-durable");
                }
            });
            sim::log(format!("DISK fsync(dir) {}", dir.file_name().map(|s| s.to_string_lossy().to_string()).unwrap_or_default()));
        }));
    });
    FS_HOOK.with(|h| {
        *h.borrow_mut() = Some(Box::new(|op: &str, path: &std::path::Path, len: usize| -> FsAction {
            let name = path.file_name().map(|s| s.to_string_lossy().to_string()).unwrap_or_default();
            let act = DISK.with(|d| {
                let mut d = d.borrow_mut();
                d.ops += 1;
                if name.starts_with("segment-") {
                    d.seen_files.insert(path.to_path_buf());
                    if op == "open" && !path.exists() {
                        d.new_files.insert(path.to_path_buf());
                    }
                }
                // one-shot deterministic plans first
                if let Some((k, n, arg)) = d.die_on.clone() {
                    if k == op {
                        if n <= 1 {
                            die(&mut d, &format!("disk_die_at_{op}"));
                            return FsAction::TornThenDie(arg);
                        }
                        d.die_on = Some((k, n - 1, arg));
                    }
                }
                if let Some((k, n, errno)) = d.fail_on.clone() {
                    if k == op {
                        if n <= 1 {
                            d.fail_on = None;
                            sim::fault_fired(if errno == libc::ENOSPC { "disk_enospc" } else { "disk_eio" });
                            return FsAction::Fail(errno);
                        }
                        d.fail_on = Some((k, n - 1, errno));
                    }
                }
                if op == "write" {
                    if let Some(b) = d.write_budget {
                        if (len as u64) > b {
                            die(&mut d, "disk_torn_write");
                            d.bytes_written += b;
                            return FsAction::TornThenDie(b as usize);
                        }
                        d.write_budget = Some(b - len as u64);
                    }
                    if let Some(s) = d.short_next.take() {
                        if len > 1 {
                            sim::fault_fired("disk_short_write");
                            let n = len.saturating_sub(s).max(1);
                            d.bytes_written += n as u64;
                            return FsAction::Short(n);
                        }
                    }
                }
                // random faults
                let enabled = sim::with(|st| st.cfg.enabled);
                if enabled && d.rnd_budget > 0 && (d.rnd_eio_pm + d.rnd_enospc_pm + d.rnd_short_pm + d.rnd_crash_pm + d.rnd_sync_eio_pm) > 0 {
                    let r = sim::s(1000);
                    let mut hi = 1000;
                    let mut hit = |pm: u32| -> bool {
                        let lo = hi - pm.min(hi);
                        let h = r >= lo && pm > 0;
                        hi = lo;
                        h
                    };
                    if hit(d.rnd_crash_pm) {
                        d.rnd_budget -= 1;
                        let n = if len > 0 { sim::s(len as u32 + 1) as usize } else { 0 };
                        die(&mut d, &format!("disk_crash_in_{op}"));
                        return FsAction::TornThenDie(n);
                    }
                    if op == "sync" && hit(d.rnd_sync_eio_pm) {
                        d.rnd_budget -= 1;
                        sim::fault_fired("disk_eio_on_sync");
                        return FsAction::Fail(libc::EIO);
                    }
                    if hit(d.rnd_eio_pm) && op != "open" {
                        d.rnd_budget -= 1;
                        sim::fault_fired("disk_eio");
                        return FsAction::Fail(libc::EIO);
                    }
                    if hit(d.rnd_enospc_pm) && (op == "write" || op == "std.write") {
                        d.rnd_budget -= 1;
                        // a disk filling up: nothing, or a seeded prefix of the write, fits
                        if len > 1 && sim::s(2) == 1 {
                            let n = sim::s(len as u32) as usize;
                            sim::fault_fired("disk_enospc_after_partial_write");
                            d.bytes_written += n as u64;
                            return FsAction::PartialThenFail(n, libc::ENOSPC);
                        }
                        sim::fault_fired("disk_enospc");
                        return FsAction::Fail(libc::ENOSPC);
                    }
                    if hit(d.rnd_short_pm) && op == "write" && len > 1 {
                        d.rnd_budget -= 1;
                        sim::fault_fired("disk_short_write");
                        let n = 1 + sim::s(len as u32 - 1) as usize;
                        d.bytes_written += n as u64;
                        return FsAction::Short(n);
                    }
                }
                if op == "write" {
                    d.bytes_written += len as u64;
                }
                if op == "sync" {
                    // everything written to this file so far is durable from now on
                    if let Ok(md) = std::fs::metadata(path) {
                        d.synced_len.insert(path.to_path_buf(), md.len());
                    }
                }
                FsAction::Proceed
            });
            if op == "sync" && matches!(act, FsAction::Fail(_)) {
                DISK.with(|d| {
                    let mut d = d.borrow_mut();
                    if d.power_loss {
                        let from = d.synced_len.get(path).copied().unwrap_or(0);
                        let to = std::fs::metadata(path).map(|m| m.len()).unwrap_or(from);
                        if to > from {
                            d.poisoned.push((path.to_path_buf(), from, to));
                        }
                    }
                });
            }
            sim::log(format!("DISK {op} {name} len={len} -> {:?}", act));
            act
        }));
    });
}
