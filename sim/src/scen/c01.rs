//! C01 — acknowledged writes survive crashes and storage faults.

use super::common::*;
use super::ingest::*;
use crate::core::coord::{Coord, PropDef};
use crate::core::disk;
use crate::core::run::{RunSpec, ScenFut};
use crate::core::sim::{self, Fault};
use crate::core::store::SimStore;
use cardinalsin::ingester::{Ingester, IngesterConfig, WalConfig, WalSyncMode};
use cardinalsin::metadata::{MetadataClient, ObjectStoreMetadataClient, ObjectStoreMetadataConfig};
use cardinalsin::schema::MetricSchema;
use cardinalsin::StorageConfig;
use object_store::memory::InMemory;
use object_store::ObjectStore;
use std::collections::{BTreeMap, BTreeSet, VecDeque};
use std::sync::{Arc, Mutex};
use std::time::Duration;

pub static DEF: PropDef = PropDef {
    id: "C01",
    level: "fault_enumeration",
    engine: "ingest",
    rule: "random phase: one run = a real Ingester (WAL EveryWrite on the shim disk, object-store catalog, flush_row_count 2..8 (one run in five: a buffer limit of 1.5..2.5 KB under a large threshold, so that writes are refused with BufferFull while acknowledged rows are buffered), flush_interval 1..30 s, WAL segments of ~1..3 entries) with 2..4 writer tasks issuing 3..10 writes of 1..3 rows over five alternating schemas (two that differ in columns, three that differ from the first only in nullability / column order / metadata), the flush timer, and a fault profile drawn per run (fault-free / store request failures before+after effect and delays / disk ENOSPC (also after a partial write)-EIO-short-torn writes with tokio's deferred error reporting / a failed fsync followed by power loss (dirty pages of the failed sync are dropped) / node crashes at any quiescent point or inside a file operation, up to 3 crash-restart rounds incl. crashes during recovery), ended either by graceful shutdown or by crash+restart+shutdown; sweep phase (fault enumeration): for generated workloads, one run per (object-store request index of the fault-free run) x {crash before, crash after, fail before, fail after}; distinct = distinct (variant, grant/fault/crash sequence); non-trivial = completed AND (interleaved OR a fault/crash fired)",
    quick_runs: 4000,
    thorough_runs: 60_000,
    run_cap_ms: 30_000,
    scen,
    extra_phase: Some(sweep_phase),
    real: &["Ingester (write, WAL append, buffer, threshold/timer/shutdown flush, ensure_wal recovery)", "WriteAheadLog + flushed_seq on the shim disk", "ObjectStoreMetadataClient", "ParquetWriter"],
    stub: &["S3 = InMemory behind SimStore", "disk = tmpfs behind the WAL's file shim: a tokio::fs::File stand-in with tokio's deferred write errors, process-crash semantics in two thirds of the runs, power-loss semantics (unsynced bytes, pages of a failed fsync and files without a directory sync are lost) in one third", "process = incarnation fencing"],
    assumptions: &["WalSyncMode::EveryWrite (the property's precondition)", "process-crash semantics for the local disk", "an acknowledgement counts only if the node was still alive when write() returned"],
};

#[derive(Clone)]
struct World {
    inner: Arc<InMemory>,
    dir: String,
    cfg: IngesterConfig,
    queue: Arc<Mutex<VecDeque<(u32, Vec<Row>, u64)>>>,
    acked: Arc<Mutex<BTreeMap<i64, String>>>,
    submitted: Arc<Mutex<BTreeMap<i64, String>>>,
    writers: u32,
    /// graceful shutdown has begun: the server accepts no new requests
    closed: Arc<std::sync::atomic::AtomicBool>,
}

type Inc = (Arc<Ingester>, tokio::task::JoinHandle<()>, Arc<std::sync::atomic::AtomicUsize>);

async fn start_incarnation(w: &World) -> Option<Inc> {
    let store: Arc<dyn ObjectStore> = SimStore::new(w.inner.clone(), 0);
    let meta: Arc<dyn MetadataClient> = Arc::new(ObjectStoreMetadataClient::new(store.clone(), ObjectStoreMetadataConfig::default()));
    let mut ing = Ingester::new(w.cfg.clone(), store, meta, StorageConfig::default(), MetricSchema::default_metrics());
    let my_inc = sim::inc(0);
    if my_inc > 0 {
        // (in power-loss runs) whatever the dead incarnation wrote to WAL segments without syncing is gone
        disk::apply_power_loss();
    }
    sim::log(format!("START ingester incarnation {my_inc}"));
    // recovery may itself flush, fail, or die
    let h = tokio::spawn(async move {
        let r = ing.ensure_wal().await;
        (r.map_err(|e| e.to_string()), ing)
    });
    let ing = tokio::select! {
        r = h => match r {
            Ok((Ok(()), ing)) => ing,
            Ok((Err(e), _)) => {
                sim::log(format!("ensure_wal failed: {e}"));
                sim::probe("recovery-failed");
                return None;
            }
            Err(_) => return None,
        },
        _ = sim::wait_crash(0) => {
            sim::probe("crash-during-recovery");
            return None;
        }
    };
    let ing = Arc::new(ing);
    let i2 = ing.clone();
    let timer = tokio::spawn(async move { i2.run_flush_timer().await });
    let inflight = Arc::new(std::sync::atomic::AtomicUsize::new(0));
    for wi in 0..w.writers {
        let ing = ing.clone();
        let w = w.clone();
        let inflight = inflight.clone();
        tokio::spawn(async move {
            loop {
                if !sim::alive(0, my_inc) {
                    return;
                }
                let op = w.queue.lock().unwrap().pop_front();
                let Some((variant, rows, pause)) = op else { return };
                sim::yield_point(0, &format!("writer{wi} before write")).await;
                if !sim::alive(0, my_inc) || w.closed.load(std::sync::atomic::Ordering::SeqCst) {
                    return;
                }
                let b = batch(variant, &rows);
                let rs = row_strings(&b);
                for (r, s) in rows.iter().zip(rs.iter()) {
                    w.submitted.lock().unwrap().insert(r.id, s.clone());
                }
                sim::log(format!("WRITE w{wi} ids={:?}", rows.iter().map(|r| r.id).collect::<Vec<_>>()));
                inflight.fetch_add(1, std::sync::atomic::Ordering::SeqCst);
                let res = ing.write(b).await;
                inflight.fetch_sub(1, std::sync::atomic::Ordering::SeqCst);
                // an acknowledgement counts only if the process was still alive when the call returned
                if !sim::alive(0, my_inc) {
                    return;
                }
                match res {
                    Ok(()) => {
                        sim::log(format!("ACK w{wi} ids={:?}", rows.iter().map(|r| r.id).collect::<Vec<_>>()));
                        let mut a = w.acked.lock().unwrap();
                        for (r, s) in rows.iter().zip(rs.iter()) {
                            a.insert(r.id, s.clone());
                        }
                    }
                    Err(e) => {
                        sim::log(format!("NACK w{wi} ids={:?}: {e}", rows.iter().map(|r| r.id).collect::<Vec<_>>()));
                        sim::probe("write-error-returned");
                    }
                }
                if pause > 0 {
                    tokio::time::sleep(Duration::from_millis(pause)).await;
                }
            }
        });
    }
    Some((ing, timer, inflight))
}

fn scen(spec: RunSpec) -> ScenFut {
    Box::pin(async move {
        disk::install(0);
        let dir = disk::scratch_dir("wal");
        let inner = Arc::new(InMemory::new());
        let mut cfg = IngesterConfig::default();
        cfg.flush_row_count = sim::w_range(2, 8) as usize;
        // one run in six flushes by size instead of by row count
        if sim::w(6) == 5 {
            cfg.flush_row_count = 1_000_000;
            cfg.flush_size_bytes = [400usize, 2000][sim::w(2) as usize];
        }
        cfg.flush_interval = Duration::from_secs([1u64, 5, 30][sim::w(3) as usize]);
        cfg.wal = WalConfig { wal_dir: dir.clone().into(), max_segment_size: [1usize, 1200, 2500, 1 << 20, 0][sim::w(5) as usize], sync_mode: WalSyncMode::EveryWrite, enabled: true };
        let writers = sim::w_range(2, 4);
        // fault profile
        let sweep: Option<(u64, Fault)> = spec.variant.strip_prefix("sweep:").and_then(|s| {
            let mut it = s.split(':');
            let n: u64 = it.next()?.parse().ok()?;
            let f = match it.next()? {
                "crash_before" => Fault::CrashBefore,
                "crash_after" => Fault::CrashAfter,
                "fail_before" => Fault::FailBefore,
                _ => Fault::FailAfter,
            };
            Some((n, f))
        });
        let is_sweep = spec.variant != "random";
        let profile = if is_sweep { 0 } else { sim::w(7) };
        // profile 6 = "a failed fsync, later acknowledged writes behind it, then power loss": rows stay in the buffer
        // (large flush threshold), entries share one segment, the run ends with a crash
        if profile == 6 {
            cfg.flush_row_count = 60;
            cfg.flush_interval = Duration::from_secs(30);
            cfg.wal.max_segment_size = 1 << 20;
        }
        // one random run in five has a tiny buffer limit and a large flush threshold: writes are refused with BufferFull
        // while acknowledged rows sit in the buffer (a refused write is not an acknowledged one)
        if !is_sweep && profile != 6 && sim::w(5) == 4 {
            cfg.max_buffer_size_bytes = [1500usize, 2500][sim::w(2) as usize];
            cfg.flush_row_count = 60;
            sim::probe("tiny-buffer-limit");
        }
        let post = sim::w_bool(50);
        let adv = [2u32, 8, 20][sim::w(3) as usize];
        let (d1, d2) = (1 + sim::w(3), 1 + sim::w(4));
        sim::set_cfg(|c| {
            c.post_gates = post;
            c.adv_pct = adv;
            c.ticks_ms = vec![20, 300, 1200, 6000, 31000];
            c.fault_nodes = vec![0];
            c.forced = sweep;
            match profile {
                0 => {}
                1 => {
                    c.fail_before_pm = 30;
                    c.fail_after_pm = 30;
                    c.delay_pm = 20;
                    c.body_break_pm = 10;
                    c.fault_budget = d2;
                    c.outage_pm = 20;
                    c.outage_budget = 1;
                }
                2 => {
                    c.crash_pm = 15;
                    c.crash_budget = d1;
                    c.crashable = vec![0];
                }
                3 => {
                    c.crash_pm = 10;
                    c.crash_budget = d1;
                    c.crashable = vec![0];
                    c.fail_before_pm = 20;
                    c.fail_after_pm = 20;
                    c.delay_pm = 20;
                    c.fault_budget = d2;
                }
                _ => {}
            }
        });
        if profile == 6 {
            let b = 1 + sim::w(2);
            disk::with(|d| {
                d.rnd_budget = b;
                d.rnd_sync_eio_pm = 150;
            });
        }
        if profile == 4 || profile == 5 {
            let b = 1 + sim::w(3);
            disk::with(|d| {
                d.rnd_budget = b;
                if profile == 4 {
                    d.rnd_crash_pm = 25;
                    d.rnd_short_pm = 30;
                } else {
                    d.rnd_enospc_pm = 25;
                    d.rnd_eio_pm = 15;
                    d.rnd_sync_eio_pm = 40;
                    d.rnd_short_pm = 30;
                    d.rnd_crash_pm = 10;
                }
            });
        }
        let ending_b = sim::w_bool(50) || profile == 6;
        // a third of the runs use power-loss semantics for the WAL segments: bytes written but not yet synced do
        // not survive a crash (the property's precondition is a sync on every write)
        let power_loss = sim::w(3) == 2 || profile == 6;
        // half of the power-loss runs are strict about directories: a segment file created since the last fsync of
        // the WAL directory does not exist after the power loss
        let dir_durability = power_loss && sim::w_bool(50);
        disk::with(|d| {
            d.power_loss = power_loss;
            d.dir_durability = dir_durability;
        });
        sim::log(format!(
            "CONFIG variant={} profile={profile} writers={writers} flush_rows={} flush_interval={:?} segment={} post_gates={post} power_loss={power_loss} strict_dir_durability={dir_durability} ending={}",
            spec.variant,
            cfg.flush_row_count,
            cfg.flush_interval,
            cfg.wal.max_segment_size,
            if ending_b { "B(crash+restart)" } else { "A(graceful)" }
        ));
        // workload
        let mut gen = RowGen::new();
        let now = sim::EPOCH_NS as i64;
        let total_ops = writers * sim::w_range(3, 10);
        let mut q = VecDeque::new();
        for _ in 0..total_ops {
            let variant = [0u32, 0, 0, 0, 1, 1, 5, 6, 7][sim::w(9) as usize];
            let n = sim::w_range(1, 3);
            let rows: Vec<Row> = (0..n).map(|_| gen.row(now - sim::w(1000) as i64 * 1_000_003, false)).collect();
            let pause = [0u64, 0, 0, 200, 1500][sim::w(5) as usize];
            q.push_back((variant, rows, pause));
        }
        let world = World {
            inner: inner.clone(),
            dir: dir.clone(),
            cfg: cfg.clone(),
            queue: Arc::new(Mutex::new(q)),
            acked: Arc::new(Mutex::new(BTreeMap::new())),
            submitted: Arc::new(Mutex::new(BTreeMap::new())),
            writers,
            closed: Arc::new(std::sync::atomic::AtomicBool::new(false)),
        };
        // supervisor loop
        let mut started_inc = sim::inc(0);
        let mut current = start_incarnation(&world).await;
        let mut restarts = 0;
        loop {
            // wait until the queue is drained (and writers idle) or the node crashes
            let drained = {
                let w = world.clone();
                async move {
                    loop {
                        tokio::time::sleep(Duration::from_millis(500)).await;
                        if w.queue.lock().unwrap().is_empty() {
                            // give in-flight writes time to return
                            tokio::time::sleep(Duration::from_secs(40)).await;
                            return;
                        }
                    }
                }
            };
            let crashed = if current.is_none() {
                true
            } else {
                tokio::select! {
                    _ = drained => false,
                    _ = sim::wait_crash(0) => true,
                }
            };
            if !crashed {
                break;
            }
            sim::clear_crash_pending(0);
            restarts += 1;
            if restarts > 6 {
                break;
            }
            drop(current.take());
            let delay = [10u64, 1000, 20_000][sim::w(3) as usize];
            tokio::time::sleep(Duration::from_millis(delay)).await;
            started_inc = sim::inc(0);
            current = start_incarnation(&world).await;
            if current.is_some() {
                sim::probe("restart-recovered");
            }
        }
        // ---- faults stop here ----
        sim::faults_off();
        disk::with(|d| {
            d.rnd_budget = 0;
            d.write_budget = None;
            d.die_on = None;
            d.fail_on = None;
        });
        sim::set_cfg(|c| c.forced = None);
        sim::clear_crash_pending(0);
        if current.is_some() && sim::inc(0) != started_inc {
            // the node died just as the workload finished
            current = None;
        }
        if current.is_none() {
            // restart once more, fault-free
            tokio::time::sleep(Duration::from_millis(50)).await;
            current = start_incarnation(&world).await;
        }
        if ending_b {
            sim::crash(0);
            sim::clear_crash_pending(0);
            drop(current.take());
            tokio::time::sleep(Duration::from_millis(50)).await;
            current = start_incarnation(&world).await;
        }
        let Some((ing, timer, inflight)) = current else {
            sim::violation("C01/cannot-restart", "ingester cannot be restarted with faults off (ensure_wal fails)".to_string());
            disk::cleanup_scratch();
            return;
        };
        // ending (A): graceful shutdown — the rest of the workload (if restarts ran out before the queue
        // was drained) is written fault-free first; then the server stops accepting requests, requests
        // still in flight are allowed to return (the server drains its handlers), and the final flush
        // must make everything queryable
        let mut waited = 0;
        while !world.queue.lock().unwrap().is_empty() && waited < 100 {
            tokio::time::sleep(Duration::from_secs(10)).await;
            waited += 1;
        }
        world.closed.store(true, std::sync::atomic::Ordering::SeqCst);
        let mut waited = 0;
        while inflight.load(std::sync::atomic::Ordering::SeqCst) > 0 && waited < 100 {
            tokio::time::sleep(Duration::from_secs(10)).await;
            waited += 1;
        }
        if inflight.load(std::sync::atomic::Ordering::SeqCst) > 0 {
            sim::violation("C01/write-never-returns", "a write() call did not return within 1000 virtual seconds after faults stopped".to_string());
        }
        ing.shutdown_token().cancel();
        let _ = timer.await;
        let leftover = ing.buffer_stats().await.row_count;
        // oracle
        let fresh = raw_client(&inner);
        let chunks = match fresh.list_chunks().await {
            Ok(c) => c,
            Err(e) => {
                sim::violation("C01/list-failed", e.to_string());
                return;
            }
        };
        let mut stored: BTreeMap<i64, String> = BTreeMap::new();
        let mut dup = 0;
        for c in &chunks {
            match read_chunk(&inner, &c.chunk_path).await {
                Ok(bs) => {
                    for b in &bs {
                        for (id, s) in ids_of(b).into_iter().zip(row_strings(b)) {
                            if stored.insert(id, s).is_some() {
                                dup += 1;
                            }
                        }
                    }
                }
                Err(e) => sim::violation("C01/registered-chunk-unreadable", e),
            }
        }
        if dup > 0 {
            sim::probe_n("duplicate-rows(permitted)", dup);
        }
        let acked = world.acked.lock().unwrap().clone();
        let submitted = world.submitted.lock().unwrap().clone();
        let lost: Vec<i64> = acked.keys().filter(|id| !stored.contains_key(id)).cloned().collect();
        if !lost.is_empty() {
            let crashes = sim::with(|st| st.faults.get("crash").copied().unwrap_or(0));
            let tag = if crashes == 0 { "no-crash" } else { "after-crash" };
            sim::violation(
                format!("C01/acked-row-lost/{tag}"),
                format!(
                    "{} acknowledged rows are in no registered chunk after the final successful flush (ids {:?}); {} acked, {} stored, {} rows left in buffer, {} crashes, ending {}",
                    lost.len(),
                    lost.iter().take(8).collect::<Vec<_>>(),
                    acked.len(),
                    stored.len(),
                    leftover,
                    crashes,
                    if ending_b { "B" } else { "A" }
                ),
            );
        }
        for (id, s) in &stored {
            match submitted.get(id) {
                Some(w) if w == s => {}
                Some(w) => sim::violation("C01/stored-row-altered", format!("row id {id}: stored {s}, submitted {w}")),
                None => sim::violation("C01/stored-row-never-submitted", format!("row id {id}: {s}")),
            }
        }
        sim::probe_n("acked-rows", acked.len() as u64);
        sim::set_completed();
        sim::set_extra("store_gates", serde_json::json!(sim::with(|st| st.store_gate_ord)));
        sim::state_sig(sim::hash_str(&format!("{}:{}:{}", chunks.len(), acked.len(), restarts)));
        disk::cleanup_scratch();
    })
}

/// Fault-position sweep: for a few generated workloads, every store request x 4 fault kinds.
fn sweep_phase(co: &mut Coord) {
    let n_w = if co.tier == "quick" { 5 } else { 40 };
    let mut base = Vec::new();
    for i in 0..n_w as u64 {
        base.push(co.spec(2_000_000 + i, "sweep:999999:fail_before"));
    }
    let outs = co.exec(&base, false);
    let mut specs = Vec::new();
    for (s, o) in base.iter().zip(outs.iter()) {
        if let Some(o) = o {
            let n = o.extra.get("store_gates").and_then(|v| v.as_u64()).unwrap_or(0).min(400);
            for k in 0..n {
                for f in ["crash_before", "crash_after", "fail_before", "fail_after"] {
                    let mut x = s.clone();
                    x.variant = format!("sweep:{k}:{f}");
                    specs.push(x);
                }
            }
        }
    }
    if let Some(f) = specs.first_mut() {
        f.want_trace = true;
    }
    co.run_batch(specs, "sweep-every-store-request");
}
