//! C09 — garbage collection and retention delete only what is safe to delete.

use super::common::*;
use super::compaction::*;
use super::ingest::*;
use crate::core::coord::PropDef;
use crate::core::run::{RunSpec, ScenFut};
use crate::core::sim;
use crate::core::store::{self, SimStore};
use cardinalsin::compactor::{ChunkPinRegistry, Compactor, CompactorConfig};
use cardinalsin::ingester::{ChunkMetadata, ParquetWriter};
use cardinalsin::metadata::{MetadataCatalog, MetadataClient, ObjectStoreMetadataClient, ObjectStoreMetadataConfig};
use cardinalsin::query::{QueryConfig, QueryNode};
use cardinalsin::sharding::{HotShardConfig, ShardMonitor};
use cardinalsin::StorageConfig;
use object_store::memory::InMemory;
use object_store::path::Path;
use object_store::{ObjectStore, PutPayload};
use std::collections::{BTreeMap, BTreeSet};
use std::sync::{Arc, Mutex};
use std::time::Duration;

pub static DEF: PropDef = PropDef {
    id: "C09",
    level: "exploration",
    engine: "compaction",
    rule: "one run = a real Compactor::run loop (check_interval 60 s, gc grace 0/5/60/300 s, retention 1/7/90 days) and a real QueryNode sharing one ChunkPinRegistry on one node, over the object-store catalog, on a generated dataset with mergeable recent L0 chunks plus chunks entirely older than, entirely newer than, straddling, about to cross, and ending a drawn 1..170 minutes inside the retention cut-off; 2..6 queries issued at drawn instants (their chunk reads are scheduling points, so a GC pass can be interleaved with a query at any request), optional compactor crash+restart at a drawn request (pending deletions must survive), optional backward wall-clock jump (BoundedClock must mask it); 30..90 virtual minutes; distinct = distinct decision sequence; non-trivial = completed AND at least one data file was deleted or one retention removal happened",
    quick_runs: 1500,
    thorough_runs: 12_000,
    run_cap_ms: 90_000,
    scen,
    extra_phase: None,
    real: &["Compactor::run (garbage_collect, enforce_retention, schedule/persist/load pending deletions)", "ChunkPinRegistry + QueryNode::query pinning", "BoundedClock", "DataFusion reads through CachedObjectStore"],
    stub: &["S3 = InMemory behind SimStore (request log is the monitor)", "clock (virtual, jumps injected)"],
    assumptions: &["compactor and query node share a process (same node) — the statement's 'in the same process'", "object-store catalog backend (its version history is the authority for 'unreferenced since')"],
};

thread_local! {
    static RUNNING_QUERIES: std::cell::RefCell<Option<Arc<std::sync::atomic::AtomicUsize>>> = const { std::cell::RefCell::new(None) };
}

struct Del {
    path: String,
    t_ns: u64,
    /// global event number of the deletion (orders it against catalog versions written in the same virtual instant)
    ev: u64,
    pinned: bool,
    pinned_when_pass_looked: bool,
    /// a query that had read this chunk while holding it pinned is still running, but the pin is gone
    in_use_unpinned: bool,
}

fn scen(_spec: RunSpec) -> ScenFut {
    Box::pin(async move {
        store::keep_data_payloads(true);
        let inner = Arc::new(InMemory::new());
        let grace_s = [0u64, 5, 60, 300][sim::w(4) as usize];
        let retention_days = [1u32, 7, 90][sim::w(3) as usize];
        let cfg = CompactorConfig {
            l0_merge_threshold: 2,
            max_levels: 2,
            retention_days,
            check_interval: Duration::from_secs(60),
            gc_grace_period: Duration::from_secs(grace_s),
            sharding_enabled: false,
            ..Default::default()
        };
        let crash_run = sim::w_bool(40);
        let slow_queries = sim::w_bool(50);
        let jump = sim::w_bool(25);
        let post = sim::w_bool(30);
        sim::set_cfg(|c| {
            c.post_gates = post;
            c.adv_pct = 10;
            c.ticks_ms = vec![50, 2_000, 20_000, 61_000];
            c.max_grants = 80_000;
            c.max_virtual_ns = 12 * 3600 * 1_000_000_000;
            if crash_run {
                c.crash_pm = 3;
                c.crash_budget = 1;
                c.crashable = vec![0];
            }
            if slow_queries {
                // the query node is denied grants for a while: queries stay in flight (holding their pins)
                // across whole compaction cycles and GC passes
                c.stall_pm = 25;
                c.stall_budget = 3;
                c.stall_nodes = vec![1];
                c.stall_ms = vec![30_000, 70_000, 130_000, 400_000];
            }
        });
        let now = sim::EPOCH_NS as i64;
        let ret_ns = retention_days as i64 * 24 * HOUR;
        let cutoff0 = now - ret_ns;
        // dataset: (min, max) per chunk
        let pw = ParquetWriter::new();
        // seeding goes through a recorded store handle so that the catalog's version history is complete
        sim::set_cfg(|c| c.enabled = false);
        let setup = ObjectStoreMetadataClient::new(SimStore::new(inner.clone(), 7), ObjectStoreMetadataConfig::default());
        let mut gen = RowGen::new();
        let mut spans: Vec<(i64, i64, &str)> = vec![
            (cutoff0 - 50 * HOUR, cutoff0 - 49 * HOUR, "old"),
            (cutoff0 - 2 * HOUR, cutoff0 + 2 * HOUR, "straddle"),
            (cutoff0 + 10 * 60 * SEC, cutoff0 + 10 * HOUR, "about-to-cross"),
            (now - 2 * HOUR, now - 2 * HOUR + 60 * SEC, "new"),
        ];
        // mergeable recent L0 chunks in one hour bucket
        let recent_bucket = bucket(now - 5 * HOUR);
        let n_recent = sim::w_range(2, 5);
        for i in 0..n_recent {
            spans.push((recent_bucket + i as i64 * 60 * SEC, recent_bucket + i as i64 * 60 * SEC + 30 * SEC, "recent"));
        }
        // a chunk whose newest row is a drawn 1..170 minutes inside the window at the start: the cut-off passes it
        // during some runs and stops just short of it in others (a cut-off rounded to a coarser unit removes it early)
        let edge_min = sim::w_range(1, 170) as i64;
        spans.push((cutoff0 - 3 * HOUR, cutoff0 + edge_min * 60 * SEC, "edge"));
        let mut seed_meta: BTreeMap<String, (i64, i64, String)> = BTreeMap::new();
        let mut seeds: Vec<SeedChunk> = Vec::new();
        for (k, (mn, mx, kind)) in spans.iter().enumerate() {
            let rows = vec![gen.row(*mn, false), gen.row(*mx, false)];
            let rb = batch(0, &rows);
            let bytes = pw.write_batch(&rb).unwrap();
            let path = format!("default/data/seed/{kind}_{k}.parquet");
            inner.put(&Path::from(path.clone()), PutPayload::from(bytes.clone())).await.unwrap();
            setup.register_chunk(&path, &ChunkMetadata { path: path.clone(), min_timestamp: *mn, max_timestamp: *mx, row_count: 2, size_bytes: bytes.len() as u64 }).await.unwrap();
            seed_meta.insert(path.clone(), (*mn, *mx, kind.to_string()));
            seeds.push(SeedChunk { path, ids: rows.iter().map(|r| r.id).collect(), rows: vec![], min: *mn, max: *mx, level: 0, size: bytes.len() as u64 });
        }
        sim::set_cfg(|c| c.enabled = true);
        let versions_before = store::versions("catalog.json").len();
        sim::log(format!("CONFIG grace={grace_s}s retention={retention_days}d crash_run={crash_run} slow_queries={slow_queries} clock_jump={jump} recent={n_recent} post_gates={post}"));
        // monitor: every DELETE at its effect instant
        let pins = ChunkPinRegistry::new();
        // what was pinned when the current GC pass evaluated the pins: the pass's filter runs in the same
        // synchronous stretch as the issue of its first DELETE (the first DELETE the compactor issues after
        // any other request)
        let pass_pins: Arc<Mutex<BTreeSet<String>>> = Arc::new(Mutex::new(BTreeSet::new()));
        // chunks the currently running query has read while they were pinned (one query runs at a time)
        let cur_reads: Arc<Mutex<BTreeSet<String>>> = Arc::new(Mutex::new(BTreeSet::new()));
        {
            let pins = pins.clone();
            let pass_pins = pass_pins.clone();
            let last_was_delete = Arc::new(std::sync::atomic::AtomicBool::new(false));
            let seed_paths: Vec<String> = seed_meta.keys().cloned().collect();
            let cur_reads_obs = cur_reads.clone();
            let pins_r = pins.clone();
            store::set_issue_observer(Box::new(move |node: u32, op: &str, _path: &str| {
                if node == 1 && (op == "GET" || op == "HEAD") && _path.ends_with(".parquet") && pins_r.is_pinned(_path) {
                    // the running query reads a chunk it holds pinned: it is using that chunk from now on
                    cur_reads_obs.lock().unwrap().insert(_path.to_string());
                }
                if node != 0 {
                    return;
                }
                let is_del = op == "DELETE";
                let was_del = last_was_delete.swap(is_del, std::sync::atomic::Ordering::SeqCst);
                if is_del && std::env::var("VERIF_DIAG_PINS").is_ok() {
                    sim::log(format!("DIAG compactor issues DELETE {} (previous compactor request was a DELETE: {was_del}); pinned now: {}", _path.rsplit('/').next().unwrap_or(""), pins.is_pinned(_path)));
                }
                if is_del && !was_del {
                    let mut known: Vec<String> = store::with_events(|e| e.iter().filter(|x| x.op == "PUT" && x.ok && x.path.ends_with(".parquet")).map(|x| x.path.clone()).collect());
                    known.extend(seed_paths.iter().cloned());
                    let now_pinned: BTreeSet<String> = known.into_iter().filter(|p| pins.is_pinned(p)).collect();
                    *pass_pins.lock().unwrap() = now_pinned;
                }
            }));
        }
        let dels: Arc<Mutex<Vec<Del>>> = Arc::new(Mutex::new(Vec::new()));
        {
            let pins = pins.clone();
            let dels = dels.clone();
            let pass_pins_obs = pass_pins.clone();
            let cur_reads_del = cur_reads.clone();
            store::set_delete_observer(Box::new(move |path: &str| {
                if path.ends_with(".parquet") {
                    let q = RUNNING_QUERIES.with(|r| r.borrow().as_ref().map(|a| a.load(std::sync::atomic::Ordering::SeqCst)).unwrap_or(0));
                    if q > 0 {
                        sim::probe("delete-while-a-query-is-running");
                    }
                    if pins.pinned_count() > 0 {
                        sim::probe("delete-while-some-chunk-pinned");
                    }
                    let pinned = pins.is_pinned(path);
                    let at_pass = pass_pins_obs.lock().unwrap().contains(path);
                    let in_use_unpinned = q > 0 && !pinned && cur_reads_del.lock().unwrap().contains(path);
                    dels.lock().unwrap().push(Del { path: path.to_string(), t_ns: sim::now_ns(), ev: sim::ev(), pinned, pinned_when_pass_looked: at_pass, in_use_unpinned });
                }
            }));
        }
        // query node (same process => same node id, same pin registry)
        // (its store handle is a node of its own so that a compactor crash does not fence it; the pins are shared)
        let qstore: Arc<dyn ObjectStore> = SimStore::new(inner.clone(), 1);
        let qmeta: Arc<dyn MetadataClient> = Arc::new(ObjectStoreMetadataClient::new(qstore.clone(), ObjectStoreMetadataConfig::default()));
        let mut qc = QueryConfig::default();
        qc.l2_cache_dir = None;
        qc.l1_cache_size = 1 << 20;
        let qn = match QueryNode::new(qc, qstore, qmeta, StorageConfig::default()).await {
            Ok(q) => Arc::new(q.with_pin_registry(pins.clone())),
            Err(e) => {
                sim::with(|st| st.abort = Some(format!("query node: {e}")));
                return;
            }
        };
        let span = Duration::from_secs([1800u64, 3600, 5400][sim::w(3) as usize]);
        // compactor with restart supervision
        let inner2 = inner.clone();
        let cfg2 = cfg.clone();
        let pins2 = pins.clone();
        let restarted_at: Arc<Mutex<Option<(u64, Vec<String>)>>> = Arc::new(Mutex::new(None));
        let ra = restarted_at.clone();
        let sup = tokio::spawn(async move {
            let deadline = tokio::time::Instant::now() + span;
            loop {
                let store: Arc<dyn ObjectStore> = SimStore::new(inner2.clone(), 0);
                let meta: Arc<dyn MetadataClient> = Arc::new(ObjectStoreMetadataClient::new(store.clone(), ObjectStoreMetadataConfig::default()));
                let comp = Arc::new(Compactor::new(cfg2.clone(), store, meta, StorageConfig::default(), Arc::new(ShardMonitor::new(HotShardConfig::default()))).with_pin_registry(pins2.clone()));
                let tok = comp.shutdown_token();
                let c2 = comp.clone();
                let h = tokio::spawn(async move { c2.run().await });
                tokio::select! {
                    _ = tokio::time::sleep_until(deadline) => {
                        tok.cancel();
                        let _ = tokio::time::timeout(Duration::from_secs(3600), h).await;
                        return;
                    }
                    _ = sim::wait_crash(0) => {
                        sim::probe("compactor-restarted");
                        // what was persisted when it died?
                        let persisted = persisted_pending(&inner2).await;
                        *ra.lock().unwrap() = Some((sim::now_ns(), persisted));
                        h.abort();
                        tokio::time::sleep(Duration::from_secs(3)).await;
                        if tokio::time::Instant::now() >= deadline { return; }
                    }
                }
            }
        });
        // a feeder keeps adding mergeable recent chunks (one in three under the path of an earlier, already collected file) so that merges and GC passes happen throughout the run
        let feed_plan: Vec<(u64, u32)> = (0..sim::w_range(2, 8)).map(|_| (sim::w_range(20, 200) as u64, sim::w_range(2, 3))).collect();
        let finner = inner.clone();
        let reuse_plan: Vec<bool> = (0..8).map(|_| sim::w(3) == 2).collect();
        let feeder_ids: Arc<Mutex<Vec<SeedChunk>>> = Arc::new(Mutex::new(Vec::new()));
        let fids = feeder_ids.clone();
        let mut next_row_id = 100_000i64;
        let feeder = tokio::spawn(async move {
            let fstore: Arc<dyn ObjectStore> = SimStore::new(finner.clone(), 2);
            let fmeta = ObjectStoreMetadataClient::new(fstore.clone(), ObjectStoreMetadataConfig::default());
            let pw = ParquetWriter::new();
            let mut k = 0;
            for (wait_s, n) in feed_plan {
                tokio::time::sleep(Duration::from_secs(wait_s)).await;
                for _ in 0..n {
                    k += 1;
                    let mn = recent_bucket + 20 * 60 * SEC + k as i64 * SEC;
                    let rows = vec![
                        Row { id: next_row_id, ts: mn, metric: "cpu".into(), host: None, vi: Some(1), vf: None, vu: None },
                        Row { id: next_row_id + 1, ts: mn + 1, metric: "cpu".into(), host: None, vi: Some(2), vf: None, vu: None },
                    ];
                    next_row_id += 2;
                    let bytes = pw.write_batch(&batch(0, &rows)).unwrap();
                    // one new chunk in three re-uses the path of an earlier one whose file has been collected meanwhile
                    // (deterministic file names, as the splitter's back-fill targets have, make such re-use real)
                    let mut path = format!("default/data/fed/fed_{k}.parquet");
                    if reuse_plan.get(k as usize % reuse_plan.len()).copied().unwrap_or(false) {
                        // (only a path the compactor has finished with: collected AND no longer in its persisted list.
                        // Between a collection and the next upload of the list a restarted compactor would delete the
                        // path once more - harmless for names that are never used again, which is what the design
                        // promises for data files, so re-use inside that window is not a history the system can see)
                        let still_listed = persisted_pending(&finner).await;
                        for j in 1..k {
                            let old = format!("default/data/fed/fed_{j}.parquet");
                            if finner.head(&Path::from(old.clone())).await.is_err() && !still_listed.contains(&old) {
                                sim::probe("path-of-a-collected-file-used-again");
                                path = old;
                                break;
                            }
                        }
                    }
                    if fstore.put(&Path::from(path.clone()), PutPayload::from(bytes.clone())).await.is_ok() {
                        let _ = fmeta.register_chunk(&path, &ChunkMetadata { path: path.clone(), min_timestamp: mn, max_timestamp: mn + 1, row_count: 2, size_bytes: bytes.len() as u64 }).await;
                        fids.lock().unwrap().push(SeedChunk { path, ids: vec![], rows: vec![], min: mn, max: mn + 1, level: 0, size: bytes.len() as u64 });
                    }
                }
            }
        });
        // queries at drawn instants
        let running = Arc::new(std::sync::atomic::AtomicUsize::new(0));
        RUNNING_QUERIES.with(|r| *r.borrow_mut() = Some(running.clone()));
        let nq = sim::w_range(4, 14);
        let qn2 = qn.clone();
        let qplan: Vec<(u64, i64, i64)> = (0..nq)
            .map(|_| {
                let lo = recent_bucket - HOUR;
                (sim::w_range(3, 150) as u64, lo, now)
            })
            .collect();
        let cur_reads_q = cur_reads.clone();
        let queries = tokio::spawn(async move {
            for (wait_s, lo, hi) in qplan {
                tokio::time::sleep(Duration::from_secs(wait_s)).await;
                // the query node runs on the same node as the compactor: a crash kills both; skip while dead
                let sql = format!("SELECT count(*) AS c FROM metrics WHERE timestamp >= {lo} AND timestamp <= {hi}");
                cur_reads_q.lock().unwrap().clear();
                running.fetch_add(1, std::sync::atomic::Ordering::SeqCst);
                let r = qn2.query(&sql).await;
                running.fetch_sub(1, std::sync::atomic::Ordering::SeqCst);
                sim::log(format!("QUERY -> {}", match &r { Ok(b) => format!("ok {} batches", b.len()), Err(e) => format!("ERR {}", e.to_string().chars().take(80).collect::<String>()) }));
                if r.is_err() {
                    sim::probe("query-error");
                }
            }
        });
        if jump {
            let at = sim::w_range(60, 1500) as u64;
            tokio::spawn(async move {
                tokio::time::sleep(Duration::from_secs(at)).await;
                sim::jump_wall_clock(-(3600 * SEC));
            });
        }
        tokio::time::sleep(span).await;
        sim::faults_off();
        let _ = sup.await;
        queries.abort();
        feeder.abort();
        let _ = &feeder_ids;
        sim::set_completed();

        // ---------------- oracle ----------------
        let epoch = sim::EPOCH_NS as i64;
        let versions = store::versions("catalog.json");
        // timeline of "listed" per path: (t_ns of version, listed set)
        let mut timeline: Vec<(u64, u64, BTreeSet<String>, u32)> = Vec::new();
        for v in &versions {
            if let Ok(c) = serde_json::from_slice::<MetadataCatalog>(v.payload.as_ref().unwrap()) {
                timeline.push((v.t_ns, v.ev, c.chunks.keys().cloned().collect(), v.node));
            }
        }
        let ever_listed: BTreeSet<String> = timeline.iter().flat_map(|(_, _, s, _)| s.iter().cloned()).collect();
        let dels = dels.lock().unwrap();
        let grace_ns = grace_s * 1_000_000_000;
        for d in dels.iter() {
            if d.in_use_unpinned {
                sim::violation(
                    "C09/deleted-while-pinned/pin-released-before-query-finished",
                    format!("{} was physically deleted at t=+{}s while the query that had pinned and read it was still running; its pin had been released early (grace {grace_s}s)", short(&d.path), d.t_ns / 1_000_000_000),
                );
            }
            if d.pinned {
                // cause class from observed facts: was the chunk already pinned when this GC pass evaluated the
                // pins (then the pass ignored a pin), or was the pin taken afterwards (the pass checks pins once
                // and then awaits each delete; a query working from a catalog view older than the grace period
                // can still select and pin a chunk that is about to be deleted)
                let class = if d.pinned_when_pass_looked { "pin-ignored-by-gc-pass" } else { "pinned-after-gc-evaluated-pins" };
                sim::violation(format!("C09/deleted-while-pinned/{class}"), format!("{} was physically deleted at t=+{}s while a running query held it pinned (grace {grace_s}s)", short(&d.path), d.t_ns / 1_000_000_000));
            }
            if !ever_listed.contains(&d.path) {
                // an orphan that was never referenced (e.g. a merged file whose publication failed) is not "something else": skip unless it is a seed
                if seed_meta.contains_key(&d.path) {
                    sim::violation("C09/unscheduled-file-deleted", format!("{} deleted although it never left the catalog", short(&d.path)));
                }
                continue;
            }
            // unreferenced by every version that was current during [t - grace, t]
            let from = d.t_ns.saturating_sub(grace_ns);
            let mut current_before: Option<&BTreeSet<String>> = None;
            let mut referenced_at: Option<u64> = None;
            // versions are ordered against the deletion by global event number, not by virtual time (a path may be
            // registered again in the very instant in which its old file was collected)
            for (t, ev, listed, _) in &timeline {
                if *ev > d.ev {
                    break;
                }
                if *t <= from {
                    current_before = Some(listed);
                } else if listed.contains(&d.path) {
                    referenced_at = Some(*t);
                }
            }
            if let Some(l) = current_before {
                if l.contains(&d.path) {
                    referenced_at = Some(from);
                }
            }
            if let Some(t) = referenced_at {
                sim::violation(
                    "C09/deleted-before-grace",
                    format!("{} deleted at t=+{}s but the catalog still referenced it at t=+{}s (grace {grace_s}s)", short(&d.path), d.t_ns / 1_000_000_000, t / 1_000_000_000),
                );
            }
        }
        // retention removals: transitions by the compactor that drop chunks without publishing a replacement
        let mut prev: Option<(BTreeSet<String>, MetadataCatalog)> = None;
        let mut retention_removals = 0;
        for (k, v) in versions.iter().enumerate() {
            let Ok(c) = serde_json::from_slice::<MetadataCatalog>(v.payload.as_ref().unwrap()) else { continue };
            let listed: BTreeSet<String> = c.chunks.keys().cloned().collect();
            if k >= versions_before {
                if let Some((pl, pc)) = &prev {
                    let removed: Vec<&String> = pl.iter().filter(|p| !listed.contains(*p)).collect();
                    let added = listed.iter().filter(|p| !pl.contains(*p)).count();
                    if !removed.is_empty() && added == 0 {
                        for p in removed {
                            retention_removals += 1;
                            let e = &pc.chunks[p];
                            // cut-off as the compactor must have computed it: wall clock at the write (jumps backwards are masked => real elapsed time is an upper bound on 'now')
                            let now_at = epoch + v.t_ns as i64;
                            let cutoff = now_at - ret_ns - 30 * SEC;
                            if e.base.max_timestamp >= cutoff {
                                let kind = seed_meta.get(p).map(|x| x.2.clone()).unwrap_or_else(|| "merged".into());
                                sim::violation(
                                    "C09/retention-removed-chunk-with-rows-inside-window",
                                    format!(
                                        "retention removed {} ({kind}) whose newest row is {:.1} h newer than the cut-off (oldest row {:.1} h older); retention {retention_days} d",
                                        short(p),
                                        (e.base.max_timestamp - cutoff) as f64 / HOUR as f64,
                                        (cutoff - e.base.min_timestamp) as f64 / HOUR as f64
                                    ),
                                );
                            }
                        }
                    }
                }
            }
            prev = Some((listed, c));
        }
        // persisted deletions survive a restart: everything persisted when the compactor died is gone by the end
        // (the run continues for at least grace + 3 check intervals after the restart, otherwise not judged)
        if let Some((t_ns, persisted)) = restarted_at.lock().unwrap().clone() {
            let end = sim::now_ns();
            // (a backward wall-clock jump legitimately postpones GC by the size of the jump: not judged then)
            if !jump && end - t_ns > (grace_s + 200) * 1_000_000_000 {
                let evs = store::events();
                let files = files_existing_at(&seeds, &evs, u64::MAX);
                for p in &persisted {
                    // carried out = at some moment after the compactor died the file did not exist: it was already gone
                    // when it died (deleted, list not yet uploaded), or it was deleted afterwards. (A file that exists
                    // at the end under this name may be a new chunk written under the re-used path.)
                    let gone_at_death = !evs.iter().filter(|e| e.t_ns <= t_ns && e.ok && e.path == *p && matches!(e.op, "PUT" | "DELETE")).last().map(|e| e.op == "PUT").unwrap_or(seeds.iter().any(|c| c.path == *p));
                    let deleted_later = evs.iter().any(|e| e.t_ns > t_ns && e.ok && e.op == "DELETE" && e.path == *p);
                    if gone_at_death || deleted_later {
                        continue;
                    }
                    if files.contains(p) && !pins.is_pinned(p) {
                        sim::violation("C09/persisted-deletion-not-carried-out", format!("{} was in pending-deletions.json when the compactor died at t=+{}s and still exists {} s later", short(p), t_ns / 1_000_000_000, (end - t_ns) / 1_000_000_000));
                    }
                }
                if !persisted.is_empty() {
                    sim::probe("restart-with-persisted-deletions");
                }
            }
        }
        sim::probe_n("data-files-deleted", dels.len() as u64);
        sim::probe_n("retention-removals", retention_removals);
        sim::set_extra("strict_nontrivial", serde_json::json!(!dels.is_empty() || retention_removals > 0));
        sim::state_sig(sim::hash_str(&format!("{}:{}", dels.len(), retention_removals)));
    })
}

async fn persisted_pending(inner: &Arc<InMemory>) -> Vec<String> {
    let p = Path::from("default/metadata/pending-deletions.json");
    match inner.get(&p).await {
        Ok(g) => match g.bytes().await {
            Ok(b) => serde_json::from_slice::<Vec<serde_json::Value>>(&b).unwrap_or_default().iter().filter_map(|v| v["path"].as_str().map(|s| s.to_string())).collect(),
            Err(_) => vec![],
        },
        Err(_) => vec![],
    }
}

fn short(p: &str) -> String {
    p.rsplit('/').next().unwrap_or(p).chars().take(26).collect()
}
