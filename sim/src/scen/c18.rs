//! C18 — live-tail delivery matches the subscription's filter.

use super::common::*;
use super::ingest::*;
use super::sql::*;
use crate::core::coord::PropDef;
use crate::core::run::{RunSpec, ScenFut};
use crate::core::sim;
use crate::core::store::SimStore;
use arrow_array::RecordBatch;
use cardinalsin::ingester::{Ingester, IngesterConfig, TopicFilter};
use cardinalsin::metadata::{LocalMetadataClient, MetadataClient};
use cardinalsin::query::{QueryConfig, QueryNode};
use cardinalsin::schema::MetricSchema;
use cardinalsin::sharding::ShardKey;
use cardinalsin::StorageConfig;
use object_store::memory::InMemory;
use object_store::ObjectStore;
use std::collections::BTreeMap;
use std::sync::{Arc, Mutex};
use std::time::Duration;

pub static DEF: PropDef = PropDef {
    id: "C18",
    level: "exploration",
    engine: "query",
    rule: "one run = a real Ingester (one flush per write, or - flush threshold 4 or 9 rows - several writes per flush; published on the legacy and the topic channel) and a real QueryNode; one streaming SQL subscription (legacy query_stream or topic-filtered query_stream_filtered; in half of the runs the same statement also as a live subscription over the node's WebSocket endpoint /api/v1/stream, real axum router + hyper + tungstenite over an in-memory duplex) with a WHERE clause generated from the supported family (comparisons in both operand orders on string / nullable string / integer / unsigned / float columns and on the timestamp column itself, negative and fractional literals, exact float equality, AND, OR, nesting) plus 1..3 raw topic subscriptions with generated filter expressions (All / Shard / Tenant / Metrics / And / Or nests); historical data is ingested before, 4..12 batches (1..6 rows, 1..3 metrics per batch, nulls, either timestamp type, timestamps before and after the merge point but never inside the subscription call's own interval) are flushed after the call returned, interleaved by the scheduler with the subscription's forwarding task; distinct = distinct (WHERE text, topic filters, batch shapes) hash; non-trivial = completed AND the expected live result is non-empty AND at least one row was expected to be filtered out",
    quick_runs: 1500,
    thorough_runs: 10_000,
    run_cap_ms: 120_000,
    scen,
    extra_phase: None,
    real: &["Ingester flush -> BroadcastChannel / TopicBroadcastChannel", "QueryNode::query_stream[_filtered] -> StreamingQueryExecutor (historical phase + QueryFilter::from_sql / apply on the live tail)", "FilteredReceiver + TopicFilter::matches"],
    stub: &["S3 = InMemory behind SimStore", "virtual clock fixes the merge timestamp"],
    assumptions: &["subscriber keeps up (fewer than 100 live batches per run)", "'after subscription' = the flush started after the subscription call returned; row timestamps avoid the call's own [invoke, return] interval so that membership in '>= merge point' is unambiguous"],
};

#[derive(Debug, Clone)]
enum TF {
    All,
    Shard(String),
    Tenant(u32),
    Metrics(Vec<String>),
    And(Vec<TF>),
    Or(Vec<TF>),
}
impl TF {
    fn to_real(&self) -> TopicFilter {
        match self {
            TF::All => TopicFilter::All,
            TF::Shard(s) => TopicFilter::Shard(s.clone()),
            TF::Tenant(t) => TopicFilter::Tenant(*t),
            TF::Metrics(m) => TopicFilter::Metrics(m.clone()),
            TF::And(v) => TopicFilter::And(v.iter().map(|x| x.to_real()).collect()),
            TF::Or(v) => TopicFilter::Or(v.iter().map(|x| x.to_real()).collect()),
        }
    }
    /// independent evaluation on (tenant, shard, metric names)
    fn eval(&self, tenant: u32, shard: &str, metrics: &[String]) -> bool {
        match self {
            TF::All => true,
            TF::Shard(s) => s == shard,
            TF::Tenant(t) => *t == tenant,
            TF::Metrics(ms) => metrics.iter().any(|m| ms.contains(m)),
            TF::And(v) => v.iter().all(|x| x.eval(tenant, shard, metrics)),
            TF::Or(v) => v.iter().any(|x| x.eval(tenant, shard, metrics)),
        }
    }
}

fn shard_of(metric: &str, ts: i64) -> String {
    let k = ShardKey::new(0, metric, ts);
    format!("shard-{:x}", u64::from_be_bytes(k.to_bytes()[0..8].try_into().unwrap()))
}

fn gen_tf(depth: u32, shards: &[String]) -> TF {
    match sim::w(if depth > 1 { 4 } else { 7 }) {
        0 => TF::All,
        1 => TF::Shard(if shards.is_empty() || sim::w(5) == 4 { "shard-none".into() } else { shards[sim::w(shards.len() as u32) as usize].clone() }),
        2 => TF::Tenant(if sim::w(4) == 3 { 1 } else { 0 }),
        3 => {
            let all = ["cpu", "mem", "disk", "net"];
            // (lists of up to four names, in drawn order - not sorted, possibly with repeats)
            let n = sim::w_range(1, 4);
            TF::Metrics((0..n).map(|_| all[sim::w(4) as usize].to_string()).collect())
        }
        4 => TF::And((0..sim::w_range(0, 3)).map(|_| gen_tf(depth + 1, shards)).collect()),
        _ => TF::Or((0..sim::w_range(0, 3)).map(|_| gen_tf(depth + 1, shards)).collect()),
    }
}

thread_local! {
    /// (timestamp column is Int64, base instant of the live rows) for the WHERE generator
    static WCTX: std::cell::Cell<(bool, i64)> = const { std::cell::Cell::new((true, 0)) };
}

fn ts_lit(ts_int: bool, v: i64) -> String {
    if ts_int {
        format!("{v}")
    } else {
        let dt = chrono::DateTime::from_timestamp(v.div_euclid(1_000_000_000), v.rem_euclid(1_000_000_000) as u32).unwrap();
        format!("TIMESTAMP '{}'", dt.format("%Y-%m-%dT%H:%M:%S%.9f"))
    }
}

fn gen_where(depth: u32, feats: &mut Vec<&'static str>) -> String {
    let rev = sim::w_bool(30);
    // a quarter of the leaves are taken from the forms added later: the timestamp column itself, the unsigned value
    // column, negative literals, exact float equality
    if sim::w(4) == 3 {
        let (ts_int, t_base) = WCTX.with(|c| c.get());
        return match sim::w(4) {
            0 => {
                feats.push("timestamp-predicate");
                let op = ["<", "<=", ">", ">=", "="][sim::w(5) as usize];
                let bound = t_base + sim::w(12) as i64 * SEC + [0i64, 1, 2][sim::w(3) as usize];
                if rev {
                    feats.push("reversed-operands");
                    let m = match op { "<" => ">", "<=" => ">=", ">" => "<", ">=" => "<=", o => o };
                    format!("{} {m} timestamp", ts_lit(ts_int, bound))
                } else {
                    format!("timestamp {op} {}", ts_lit(ts_int, bound))
                }
            }
            1 => {
                feats.push("unsigned-column");
                let op = ["<", "<=", ">", ">=", "=", "<>"][sim::w(6) as usize];
                format!("value_u64 {op} {}", sim::w(5))
            }
            2 => {
                feats.push("negative-literal");
                let op = ["<", "<=", ">", ">=", "=", "<>"][sim::w(6) as usize];
                if sim::w_bool(50) { format!("value_i64 {op} -{}", 1 + sim::w(3)) } else { format!("value_f64 {op} -0.{}", [25, 5, 75][sim::w(3) as usize]) }
            }
            _ => {
                feats.push("exact-float-equality");
                format!("value_f64 {} 0.3", ["=", "<>"][sim::w(2) as usize])
            }
        };
    }
    match sim::w(if depth > 2 { 5 } else { 8 }) {
        0 => format!("metric_name = '{}'", ["cpu", "mem", "disk"][sim::w(3) as usize]),
        1 => format!("metric_name <> '{}'", ["cpu", "mem"][sim::w(2) as usize]),
        2 => {
            // a nullable string column under every comparison operator, in either operand order: a NULL satisfies none
            feats.push("nullable-column");
            let op = ["=", "=", "<>", "<", "<=", ">", ">="][sim::w(7) as usize];
            let v = ["a", "b", "c"][sim::w(3) as usize];
            if op != "=" {
                feats.push("nullable-column-inequality");
            }
            if rev {
                feats.push("reversed-operands");
                let m = match op { "<" => ">", "<=" => ">=", ">" => "<", ">=" => "<=", o => o };
                format!("'{v}' {m} host")
            } else {
                format!("host {op} '{v}'")
            }
        }
        3 => {
            let op = ["<", "<=", ">", ">=", "=", "<>"][sim::w(6) as usize];
            let v = ["0", "1", "2", "3", "4", "5", "6", "2.5"][sim::w(8) as usize];
            if v.contains('.') {
                feats.push("fractional-literal-on-integer-column");
            }
            if rev {
                feats.push("reversed-operands");
                let m = match op { "<" => ">", "<=" => ">=", ">" => "<", ">=" => "<=", o => o };
                format!("{v} {m} value_i64")
            } else {
                format!("value_i64 {op} {v}")
            }
        }
        4 => {
            let op = ["<", "<=", ">", ">="][sim::w(4) as usize];
            let v = ["0.5", "1.0", "1.25", "2.0", "1", "2"][sim::w(6) as usize];
            if !v.contains('.') {
                feats.push("integer-literal-on-float-column");
            }
            if rev {
                feats.push("reversed-operands");
                let m = match op { "<" => ">", "<=" => ">=", ">" => "<", ">=" => "<=", o => o };
                format!("{v} {m} value_f64")
            } else {
                format!("value_f64 {op} {v}")
            }
        }
        5 => {
            feats.push("conjunction");
            format!("({} AND {})", gen_where(depth + 1, feats), gen_where(depth + 1, feats))
        }
        _ => {
            feats.push("disjunction");
            format!("({} OR {})", gen_where(depth + 1, feats), gen_where(depth + 1, feats))
        }
    }
}

fn scen(_spec: RunSpec) -> ScenFut {
    Box::pin(async move {
        let inner = Arc::new(InMemory::new());
        let store: Arc<dyn ObjectStore> = SimStore::new(inner.clone(), 0);
        let meta: Arc<dyn MetadataClient> = Arc::new(LocalMetadataClient::new());
        sim::set_cfg(|c| {
            c.adv_pct = 0;
            c.max_grants = 200_000;
        });
        let variant = if sim::w_bool(50) { 4 } else { 3 }; // Int64 or Timestamp(ns)
        let mut icfg = IngesterConfig::default();
        icfg.wal.enabled = false;
        // one flush per write, or several writes per flush (a flushed batch then carries the metrics of all its writes)
        let flush_rows: usize = [1usize, 1, 4, 9][sim::w(4) as usize];
        icfg.flush_row_count = flush_rows;
        let ing = Arc::new(Ingester::new(icfg, store.clone(), meta.clone(), StorageConfig::default(), MetricSchema::default_metrics()));
        let now0 = sim::wall_ns();
        // row generator for this scenario (values small so the predicates split the rows)
        let next_id = std::sync::atomic::AtomicI64::new(1);
        let mk_rows = |n: u32, ts: i64, metrics: &[&str]| -> Vec<Row> {
            (0..n)
                .map(|i| {
                    let id = next_id.fetch_add(1, std::sync::atomic::Ordering::SeqCst);
                    Row {
                        id,
                        ts: ts + i as i64,
                        metric: metrics[sim::w(metrics.len() as u32) as usize].to_string(),
                        host: [None, Some("a".to_string()), Some("b".to_string()), Some("c".to_string())][sim::w(4) as usize].clone(),
                        vi: if sim::w(6) == 5 { None } else { Some(sim::w(10) as i64 - 3) },
                        vf: if sim::w(6) == 5 { None } else { Some([-0.75, -0.5, -0.25, 0.0, 0.25, 0.5, 1.0, 1.25, 2.0, 0.3, 0.1 + 0.2][sim::w(11) as usize]) },
                        vu: if sim::w(6) == 5 { None } else { Some(sim::w(5) as u64) },
                    }
                })
                .collect()
        };
        // historical data (so the logical table is bound to real chunks)
        for _ in 0..2 {
            let rows = mk_rows(3, now0 - 10 * 60 * SEC, &["cpu", "mem"]);
            ing.write(batch(variant, &rows)).await.expect("historical write");
        }
        // the historical rows are flushed before anybody subscribes (the token only ends the timer loop; writes and
        // later shutdown flushes still work)
        ing.shutdown_token().cancel();
        ing.run_flush_timer().await;
        let hist_max_id = next_id.load(std::sync::atomic::Ordering::SeqCst) - 1;
        // live batches are planned up front so that shard ids are known to the topic-filter generator
        let n_live = sim::w_range(4, 12);
        let mut feats: Vec<&'static str> = Vec::new();
        WCTX.with(|c| c.set((variant == 4, now0 + 3600 * SEC)));
        let where_sql = gen_where(0, &mut feats);
        let sql = format!("SELECT * FROM metrics WHERE {where_sql}");
        let use_filtered = sim::w_bool(50);
        // subscribe
        let mut qc = QueryConfig::default();
        qc.l2_cache_dir = None;
        let mut qn = QueryNode::new(qc, store.clone(), meta.clone(), StorageConfig::default()).await.expect("query node");
        qn.connect_broadcast(ing.subscribe());
        // candidate shards: those of the metrics at the live timestamps
        let t_live_base = now0 + 3600 * SEC; // live rows are an hour "ahead": far from the merge point
        let shards: Vec<String> = ["cpu", "mem", "disk", "net"].iter().map(|m| shard_of(m, t_live_base)).collect();
        let sub_tf = if use_filtered { gen_tf(0, &shards) } else { TF::All };
        let qn = if use_filtered { qn.with_topic_filter(ing.subscribe_filtered(sub_tf.to_real()).await) } else { qn };
        let qn = Arc::new(qn);
        let t_inv = sim::wall_ns();
        let rx = if use_filtered { qn.query_stream_filtered(&sql).await } else { qn.query_stream(&sql).await };
        let t_ret = sim::wall_ns();
        let mut rx = match rx {
            Ok(r) => r,
            Err(e) => {
                sim::violation("C18/subscription-failed", format!("{sql}: {e}"));
                return;
            }
        };
        // half of the runs: the same statement also over the node's WebSocket endpoint ({"query": .., "live": true}),
        // through the real router (a streaming query of another client; no topic filter there)
        let ws_got = if sim::w_bool(50) {
            let router = cardinalsin::api::build_http_router(ing.clone(), qn.clone());
            match super::flight::websocket_subscribe(router, &sql).await {
                Ok(g) => {
                    // the handler answers the historical part and subscribes; nothing is written before it is idle
                    tokio::time::sleep(Duration::from_millis(50)).await;
                    sim::probe("websocket-subscription");
                    Some(g)
                }
                Err(e) => {
                    sim::violation("C18/subscription-failed", format!("websocket: {sql}: {e}"));
                    return;
                }
            }
        } else {
            None
        };
        // raw topic subscriptions
        let n_raw = sim::w_range(1, 3);
        let mut raws = Vec::new();
        for _ in 0..n_raw {
            let tf = gen_tf(0, &shards);
            let mut r = ing.subscribe_filtered(tf.to_real()).await;
            let got: Arc<Mutex<Vec<Vec<i64>>>> = Arc::new(Mutex::new(Vec::new()));
            let g2 = got.clone();
            let h = tokio::spawn(async move {
                while let Ok(b) = r.recv().await {
                    g2.lock().unwrap().push(ids_of(&b));
                }
            });
            raws.push((tf, got, h));
        }
        sim::log(format!("CONFIG ts_type={} sub={} where={where_sql} sub_topic={:?} raw_topics={:?}", if variant == 4 { "Int64" } else { "Timestamp" }, if use_filtered { "filtered" } else { "legacy" }, sub_tf, raws.iter().map(|r| format!("{:?}", r.0)).collect::<Vec<_>>()));
        // live flushes
        let mut live: Vec<(Vec<Row>, RecordBatch, String, Vec<String>)> = Vec::new();
        let mut pending: Vec<Row> = Vec::new();
        for k in 0..n_live {
            let before_merge = sim::w(5) == 4;
            // never inside [t_inv, t_ret]: either clearly before the call or clearly after it
            let ts = if before_merge { t_inv - 5 * SEC - k as i64 * SEC } else { t_live_base + k as i64 * SEC };
            let n_metrics = sim::w_range(1, 3) as usize;
            let ms: Vec<&str> = ["cpu", "mem", "disk", "net"][..].iter().cloned().skip(sim::w(2) as usize).take(n_metrics).collect();
            let rows = mk_rows(sim::w_range(1, 6), ts, &ms);
            let b = batch(variant, &rows);
            sim::yield_point(0, "before live write").await;
            if let Err(e) = ing.write(b.clone()).await {
                sim::violation("C18/live-write-failed", e.to_string());
                return;
            }
            // what is flushed (and published) is the buffer: every write since the last flush
            pending.extend(rows);
            let last = k + 1 == n_live;
            if last && pending.len() < flush_rows {
                // the rest goes out with the shutdown flush
                ing.run_flush_timer().await;
            }
            if pending.len() >= flush_rows || last {
                let rows = std::mem::take(&mut pending);
                if rows.len() > flush_rows.max(6) {
                    sim::probe("flush-of-several-writes");
                }
                let b = batch(variant, &rows);
                let shard = shard_of(&rows[0].metric, rows[0].ts);
                let mut mset: Vec<String> = rows.iter().map(|r| r.metric.clone()).collect();
                mset.sort();
                mset.dedup();
                live.push((rows, b, shard, mset));
            }
        }
        // let the forwarding tasks drain
        tokio::time::sleep(Duration::from_millis(5)).await;
        let mut received: Vec<Vec<i64>> = Vec::new();
        loop {
            match rx.try_recv() {
                Ok(Ok(b)) => received.push(ids_of(&b)),
                Ok(Err(e)) => {
                    sim::violation("C18/stream-error", e.to_string());
                    break;
                }
                Err(_) => break,
            }
        }
        // ---- oracle: SQL subscription ----
        let merge_lo = t_ret; // rows >= t_ret + margin are after the merge point, rows <= t_inv - margin before
        let mut expected_batches: Vec<Vec<i64>> = Vec::new();
        let mut filtered_out = 0usize;
        for (rows, b, shard, mset) in &live {
            if !sub_tf.eval(0, shard, mset) {
                filtered_out += rows.len();
                continue;
            }
            let want = match reference(&sql, b).await {
                Ok(w) => w,
                Err(e) => {
                    sim::log(format!("reference failed ({e}); out of family"));
                    sim::probe("out-of-family");
                    sim::set_completed();
                    return;
                }
            };
            let ok_ids: Vec<i64> = want.iter().flat_map(ids_of).collect();
            let mut exp: Vec<i64> = rows.iter().filter(|r| r.ts >= merge_lo && ok_ids.contains(&r.id)).map(|r| r.id).collect();
            exp.sort();
            filtered_out += rows.len() - exp.len();
            if !exp.is_empty() {
                expected_batches.push(exp);
            }
        }
        let live_received: Vec<Vec<i64>> = received
            .iter()
            .map(|b| {
                let mut v: Vec<i64> = b.iter().cloned().filter(|id| *id > hist_max_id).collect();
                v.sort();
                v
            })
            .filter(|b| !b.is_empty())
            .collect();
        let exp_flat: BTreeMap<i64, u32> = multiset_ids(expected_batches.iter().flatten());
        let got_flat: BTreeMap<i64, u32> = multiset_ids(live_received.iter().flatten());
        if exp_flat != got_flat {
            let missing: Vec<i64> = exp_flat.keys().filter(|k| !got_flat.contains_key(k)).cloned().collect();
            let extra: Vec<i64> = got_flat.keys().filter(|k| !exp_flat.contains_key(k)).cloned().collect();
            let dup: Vec<i64> = got_flat.iter().filter(|(_, n)| **n > 1).map(|(k, _)| *k).collect();
            let tag = if !dup.is_empty() {
                "row-delivered-twice"
            } else if !missing.is_empty() && extra.is_empty() {
                if where_sql.contains(" OR ") { "too-few-rows/disjunction" } else { "too-few-rows/other" }
            } else if missing.is_empty() {
                "too-many-rows"
            } else {
                "rows-differ"
            };
            sim::violation(
                format!("C18/live-tail-differs/{tag}"),
                format!("{sql} [{}{}]: expected live rows {:?}, delivered {:?} (missing {:?}, unexpected {:?})", if use_filtered { "filtered " } else { "legacy" }, if use_filtered { format!("{:?}", sub_tf) } else { String::new() }, exp_flat.keys().collect::<Vec<_>>(), got_flat.keys().collect::<Vec<_>>(), missing, extra),
            );
        } else if live_received != expected_batches {
            sim::violation("C18/live-tail-differs/order-or-batching", format!("{sql}: expected batches {:?} in flush order, delivered {:?}", expected_batches, live_received));
        }
        // ---- oracle: the WebSocket subscription (same statement, no topic filter) ----
        if let Some(g) = ws_got {
            let got: Vec<Vec<i64>> = g.lock().unwrap().clone();
            if got.iter().any(|b| b == &vec![i64::MIN]) {
                sim::violation("C18/subscription-failed", format!("websocket: {sql}: the endpoint answered with an error message"));
            } else {
                let mut want: Vec<Vec<i64>> = Vec::new();
                for (rows, b, _, _) in &live {
                    if let Ok(w) = reference(&sql, b).await {
                        let ok_ids: Vec<i64> = w.iter().flat_map(ids_of).collect();
                        let mut exp: Vec<i64> = rows.iter().filter(|r| r.ts >= merge_lo && ok_ids.contains(&r.id)).map(|r| r.id).collect();
                        exp.sort();
                        if !exp.is_empty() {
                            want.push(exp);
                        }
                    }
                }
                let got_live: Vec<Vec<i64>> = got
                    .iter()
                    .map(|b| {
                        let mut v: Vec<i64> = b.iter().cloned().filter(|id| *id > hist_max_id).collect();
                        v.sort();
                        v
                    })
                    .filter(|b| !b.is_empty())
                    .collect();
                if got_live != want {
                    let w: Vec<i64> = want.iter().flatten().cloned().collect();
                    let d: Vec<i64> = got_live.iter().flatten().cloned().collect();
                    let unexpected: Vec<i64> = d.iter().filter(|i| !w.contains(i)).cloned().collect();
                    let missing: Vec<i64> = w.iter().filter(|i| !d.contains(i)).cloned().collect();
                    sim::violation(
                        "C18/live-tail-differs/websocket",
                        format!("{sql} over /api/v1/stream: expected live rows {:?}, delivered {:?} (missing {:?}, unexpected {:?})", want, got_live, missing, unexpected),
                    );
                }
            }
        }
        // ---- oracle: raw topic subscriptions ----
        for (tf, got, h) in raws {
            h.abort();
            let got = got.lock().unwrap().clone();
            let want: Vec<Vec<i64>> = live.iter().filter(|(_, _, shard, mset)| tf.eval(0, shard, mset)).map(|(rows, _, _, _)| rows.iter().map(|r| r.id).collect()).collect();
            // historical flushes happened before these subscriptions were created
            if got != want {
                sim::violation(
                    "C18/topic-filter-delivery-differs",
                    format!("topic filter {:?}: expected {} batches {:?}, delivered {} batches {:?}", tf, want.len(), want.iter().map(|b| b[0]).collect::<Vec<_>>(), got.len(), got.iter().map(|b| b.first().cloned().unwrap_or(0)).collect::<Vec<_>>()),
                );
            }
        }
        for f in &feats {
            sim::probe(f);
        }
        sim::set_completed();
        sim::set_extra("strict_nontrivial", serde_json::json!(!exp_flat.is_empty() && filtered_out > 0));
        sim::with(|st| st.sched_sig ^= sim::hash_str(&format!("{sql}{:?}{}", sub_tf, live.len())));
    })
}

fn multiset_ids<'a>(it: impl Iterator<Item = &'a i64>) -> BTreeMap<i64, u32> {
    let mut m = BTreeMap::new();
    for i in it {
        *m.entry(*i).or_insert(0) += 1;
    }
    m
}
