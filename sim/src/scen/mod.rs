pub mod common;
pub mod c02;
pub mod c07;
pub mod c08;
pub mod c13;

use crate::core::coord::PropDef;

pub fn all() -> Vec<&'static PropDef> {
    vec![&c02::DEF, &c07::DEF, &c08::DEF, &c13::DEF]
}

pub fn get(id: &str) -> Option<&'static PropDef> {
    all().into_iter().find(|d| d.id.eq_ignore_ascii_case(id))
}
