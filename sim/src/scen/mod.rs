pub mod common;
pub mod c01;
pub mod c02;
pub mod c03;
pub mod c04;
pub mod sql;
pub mod compaction;
pub mod c05;
pub mod c06;
pub mod ingest;
pub mod c07;
pub mod c08;
pub mod c09;
pub mod c10;
pub mod c11;
pub mod flight;
pub mod c13;
pub mod c14;
pub mod c15;
pub mod c16;
pub mod c18;
pub mod c19;

use crate::core::coord::PropDef;

pub fn all() -> Vec<&'static PropDef> {
    vec![&c01::DEF, &c02::DEF, &c03::DEF, &c03::DEF20, &c04::DEF, &c05::DEF, &c06::DEF, &c07::DEF, &c08::DEF, &c09::DEF, &c10::DEF, &c11::DEF, &c13::DEF, &c14::DEF, &c15::DEF, &c16::DEF, &c18::DEF, &c19::DEF]
}

pub fn get(id: &str) -> Option<&'static PropDef> {
    all().into_iter().find(|d| d.id.eq_ignore_ascii_case(id))
}
