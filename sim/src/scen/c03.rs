//! C03 — compaction never loses or duplicates stored rows.
//! C20 — compaction converges and levels only move up (second DEF in this file).

use super::common::*;
use super::ingest::{diff_multiset, multiset};
use super::compaction::*;
use crate::core::coord::PropDef;
use crate::core::run::{RunSpec, ScenFut};
use crate::core::sim;
use crate::core::store::{self, SimStore};
use cardinalsin::compactor::{Compactor, CompactorConfig};
use cardinalsin::metadata::{LocalMetadataClient, MetadataCatalog, MetadataClient, ObjectStoreMetadataClient, ObjectStoreMetadataConfig};
use cardinalsin::sharding::{HotShardConfig, ShardMonitor};
use cardinalsin::StorageConfig;
use object_store::memory::InMemory;
use object_store::ObjectStore;
use std::collections::{BTreeMap, BTreeSet};
use std::sync::Arc;
use std::time::Duration;

pub static DEF: PropDef = PropDef {
    id: "C03",
    level: "exploration",
    engine: "compaction",
    rule: "one run = 1..2 real Compactor::run loops (own catalog client with its own 60 s cache, own store handle) on a generated dataset of 4..12 chunks at levels 0..2 over 1..3 hour buckets (rows inside retention; one dataset in twenty-five is a backlog of 33..40 level-0 chunks in one hour), l0_merge_threshold 2..4, tiny target sizes, max_levels 1..4, gc grace 0..300 s, both catalog backends (two compactors only on the object-store backend), 400..1500 virtual seconds; per-run fault profile: fault-free / store request failures+delays / compactor crash+restart at any request / stalls longer than the 300 s lease TTL; every store request is a seeded scheduling point; distinct = distinct decision sequence; non-trivial = completed AND at least one merge was published AND (two compactors interleaved OR a fault/crash/stall fired)",
    quick_runs: 5000,
    thorough_runs: 30_000,
    run_cap_ms: 60_000,
    scen: scen_c03,
    extra_phase: None,
    real: &["Compactor::run (compact_l0, compact_level, leases + renewal task, merge, GC, retention pass, pending-deletion persistence)", "ChunkMerger, ParquetWriter", "ObjectStoreMetadataClient / LocalMetadataClient"],
    stub: &["S3 = InMemory behind SimStore", "process = incarnation fencing", "clock/entropy interposed"],
    assumptions: &["rows inside the retention window", "homogeneous chunk schema inside a dataset (heterogeneous groups fail to merge without moving rows)"],
};

pub static DEF20: PropDef = PropDef {
    id: "C20",
    level: "exploration",
    engine: "compaction",
    rule: "one run = one real Compactor whose run_compaction_cycle is called N+2 times (N = initial chunk count, a proved bound: every merge replaces >= 2 chunks by 1) on a static generated dataset of 3..16 chunks with random level mixes (0..3), sizes, 1..3 hour buckets, l0_merge_threshold 2..5, target sizes from a few hundred bytes to huge, max_levels 1..4, both catalog backends, 60 virtual seconds between cycles, no faults; distinct = distinct (dataset, configuration) hash; non-trivial = completed AND at least one merge happened",
    quick_runs: 5000,
    thorough_runs: 40_000,
    run_cap_ms: 60_000,
    scen: scen_c20,
    extra_phase: None,
    real: &["Compactor::run_compaction_cycle", "get_l0_candidates / get_level_candidates (both backends)", "complete-compaction level arithmetic"],
    stub: &["S3 = InMemory behind SimStore"],
    assumptions: &["static dataset (no writer)", "levels are observable only on the object-store backend (catalog.json); on the in-memory backend convergence and row conservation are checked"],
};

fn mk_compactor(cfg: &CompactorConfig, inner: &Arc<InMemory>, node: u32, local: Option<Arc<LocalMetadataClient>>) -> Arc<Compactor> {
    let store: Arc<dyn ObjectStore> = SimStore::new(inner.clone(), node);
    let meta: Arc<dyn MetadataClient> = match local {
        Some(l) => l,
        None => Arc::new(ObjectStoreMetadataClient::new(store.clone(), ObjectStoreMetadataConfig::default())),
    };
    Arc::new(Compactor::new(cfg.clone(), store, meta, StorageConfig::default(), Arc::new(ShardMonitor::new(HotShardConfig::default()))))
}

fn draw_cfg() -> CompactorConfig {
    CompactorConfig {
        l0_merge_threshold: sim::w_range(2, 4) as usize,
        l0_target_size: 1 << 30,
        l1_target_size: [300usize, 2000, 6000, 1 << 30][sim::w(4) as usize],
        l2_target_size: [300usize, 5000, 1 << 30][sim::w(3) as usize],
        max_levels: sim::w_range(1, 4) as usize,
        retention_days: 90,
        check_interval: Duration::from_secs(60),
        gc_grace_period: Duration::from_secs([0u64, 5, 60, 300][sim::w(4) as usize]),
        sharding_enabled: false,
        ..Default::default()
    }
}

fn scen_c03(spec: RunSpec) -> ScenFut {
    Box::pin(async move {
        store::keep_data_payloads(true);
        let inner = Arc::new(InMemory::new());
        let use_local = sim::w_bool(25);
        let local = if use_local { Some(Arc::new(LocalMetadataClient::new())) } else { None };
        let n_comp = if use_local { 1 } else { sim::w_range(1, 2) };
        let cfg = draw_cfg();
        let profile = sim::w(5);
        let (b1, b2) = (1 + sim::w(3), 1 + sim::w(4));
        let post = sim::w_bool(40);
        sim::set_cfg(|c| {
            c.post_gates = post;
            c.adv_pct = 6;
            c.ticks_ms = vec![100, 5_000, 61_000, 130_000, 310_000];
            c.max_grants = 60_000;
            c.fault_nodes = vec![0, 1];
            match profile {
                1 => {
                    c.fail_before_pm = 15;
                    c.fail_after_pm = 15;
                    c.delay_pm = 15;
                    c.body_break_pm = 10;
                    c.fault_budget = b2;
                    c.outage_pm = 15;
                    c.outage_budget = 1;
                }
                2 => {
                    c.crash_pm = 6;
                    c.crash_budget = b1;
                    c.crashable = (0..n_comp).collect();
                }
                3 => {
                    c.stall_pm = 8;
                    c.stall_budget = b1;
                    c.stall_nodes = (0..n_comp).collect();
                    c.stall_ms = vec![61_000, 301_000, 400_000, 700_000];
                }
                4 => {
                    c.crash_pm = 4;
                    c.crash_budget = b1;
                    c.crashable = (0..n_comp).collect();
                    c.fail_before_pm = 10;
                    c.fail_after_pm = 10;
                    c.fault_budget = b2;
                    c.stall_pm = 4;
                    c.stall_budget = 1;
                    c.stall_nodes = (0..n_comp).collect();
                }
                _ => {}
            }
        });
        // dataset
        let n_chunks = sim::w_range(4, 12) as usize;
        let buckets = sim::w_range(1, 3) as usize;
        let levels: Vec<u32> = (0..n_chunks).map(|_| [0u32, 0, 0, 1, 2][sim::w(5) as usize]).collect();
        // one dataset in twenty-five: a backlog of 33..40 level-0 chunks in a single hour (one compaction group larger
        // than any per-job bound one might think of)
        let (n_chunks, buckets, levels) = if sim::w(25) == 24 {
            sim::probe("more-than-32-l0-chunks-in-one-hour");
            let n = sim::w_range(33, 40) as usize;
            (n, 1usize, vec![0u32; n])
        } else {
            (n_chunks, buckets, levels)
        };
        let base = sim::EPOCH_NS as i64 - 72 * HOUR;
        let base = (base / HOUR) * HOUR;
        let setup_meta: Arc<dyn MetadataClient> = match &local {
            Some(l) => l.clone(),
            None => Arc::new(ObjectStoreMetadataClient::new(SimStore::new(inner.clone(), 7), ObjectStoreMetadataConfig::default())),
        };
        sim::set_cfg(|c| c.enabled = false);
        let seeds = seed_dataset(&inner, setup_meta.as_ref(), n_chunks, buckets, &levels, base, 2).await;
        // a quarter of the runs hand every hash table built from here on an unlucky-but-legal key
        if crate::core::run::mix2(spec.seed, 5) % 4 == 0 {
            sim::set_adversarial_hash(true);
        }
        sim::set_cfg(|c| c.enabled = true);
        let versions_before = store::versions("catalog.json").len();
        sim::log(format!(
            "CONFIG catalog={} compactors={n_comp} profile={profile} chunks={n_chunks} buckets={buckets} levels={:?} l0_threshold={} l1_target={} max_levels={} grace={:?} post_gates={post}",
            if use_local { "local" } else { "object-store" },
            levels,
            cfg.l0_merge_threshold,
            cfg.l1_target_size,
            cfg.max_levels,
            cfg.gc_grace_period
        ));
        let original: BTreeMap<i64, u32> = seeds.iter().flat_map(|s| s.ids.iter().map(|i| (*i, 1u32))).collect();
        // compactor nodes with supervisors (restart after crash)
        let span = Duration::from_secs([400u64, 800, 1500][sim::w(3) as usize]);
        let mut sups = Vec::new();
        for node in 0..n_comp {
            let inner = inner.clone();
            let cfg = cfg.clone();
            let local = local.clone();
            sups.push(tokio::spawn(async move {
                let deadline = tokio::time::Instant::now() + span;
                loop {
                    let comp = mk_compactor(&cfg, &inner, node, local.clone());
                    let tok = comp.shutdown_token();
                    let c2 = comp.clone();
                    let h = tokio::spawn(async move { c2.run().await });
                    tokio::select! {
                        _ = tokio::time::sleep_until(deadline) => {
                            tok.cancel();
                            // a cycle in flight is allowed to finish
                            let _ = tokio::time::timeout(Duration::from_secs(3600), h).await;
                            return;
                        }
                        _ = sim::wait_crash(node) => {
                            sim::probe("compactor-crashed-and-restarted");
                            drop(h);
                            tokio::time::sleep(Duration::from_secs(5)).await;
                            if tokio::time::Instant::now() >= deadline {
                                return;
                            }
                            continue;
                        }
                    }
                }
            }));
        }
        // faults stop when the observation span is over; in-flight cycles then finish fault-free
        tokio::time::sleep(span).await;
        sim::faults_off();
        for s in sups {
            let _ = s.await;
        }
        // one more fault-free compactor runs two cycles so that work abandoned by dead incarnations settles
        // ("whenever no compaction is in progress" = nobody between acquire_lease and complete/fail_lease)
        sim::set_completed();
        check_c03(&inner, &seeds, &original, local.as_deref(), versions_before).await;
    })
}

async fn check_c03(inner: &Arc<InMemory>, seeds: &[SeedChunk], original: &BTreeMap<i64, u32>, local: Option<&LocalMetadataClient>, versions_before: usize) {
    let events = store::events();
    let idx = FileIndex::build(inner, seeds).await;
    let dummy = |p: &String| p.contains("/dummy_");
    // (i) at every catalog version: every original row reachable through a listed chunk whose file exists
    let versions = store::versions("catalog.json");
    let mut merges = 0;
    let mut prev: Option<MetadataCatalog> = None;
    for (k, v) in versions.iter().enumerate() {
        let cat: MetadataCatalog = match serde_json::from_slice(v.payload.as_ref().unwrap()) {
            Ok(c) => c,
            Err(e) => {
                sim::violation("C03/catalog-unparseable", e.to_string());
                return;
            }
        };
        if k >= versions_before {
            let files = files_existing_at(seeds, &events, v.ev);
            let listed: Vec<String> = cat.chunks.keys().filter(|p| !dummy(p)).cloned().collect();
            let (reach, _dangling) = reachable(&listed, &files, &idx);
            let lost: Vec<i64> = original.keys().filter(|id| !reach.contains_key(id)).cloned().collect();
            if !lost.is_empty() {
                sim::violation(
                    "C03/row-unqueryable",
                    format!(
                        "catalog version written at event {} by n{}: {} previously queryable rows are reachable through no listed chunk (ids {:?}); listed chunks {:?}",
                        v.ev,
                        v.node,
                        lost.len(),
                        lost.iter().take(6).collect::<Vec<_>>(),
                        listed.iter().map(|p| short(p)).collect::<Vec<_>>()
                    ),
                );
                break;
            }
            // (iii) level rule on transitions that retire sources
            if let Some(p) = &prev {
                let removed: Vec<&String> = p.chunks.keys().filter(|x| !cat.chunks.contains_key(*x)).collect();
                let added: Vec<&String> = cat.chunks.keys().filter(|x| !p.chunks.contains_key(*x)).collect();
                let raised: Vec<&String> = cat.chunks.iter().filter(|(x, e)| p.chunks.get(*x).map(|o| o.level != e.level).unwrap_or(false)).map(|(x, _)| x).collect();
                if !removed.is_empty() && (added.len() + raised.len()) == 1 {
                    merges += 1;
                    let t = if added.len() == 1 { added[0] } else { raised[0] };
                    let want = 1 + removed.iter().map(|s| p.chunks[*s].level).max().unwrap_or(0);
                    let got = cat.chunks[t].level;
                    if got != want {
                        sim::violation("C03/merged-level-wrong", format!("merge of {:?} (max level {}) produced {} at level {got}, expected {want}", removed.iter().map(|s| short(s)).collect::<Vec<_>>(), want - 1, short(t)));
                    }
                }
            }
        }
        prev = Some(cat);
    }
    // (ii) at quiescence: exactly the original rows, each once
    let final_listed: Vec<String> = match local {
        Some(l) => l.list_chunks().await.unwrap_or_default().into_iter().map(|e| e.chunk_path).collect(),
        None => raw_client(inner).list_chunks().await.unwrap_or_default().into_iter().map(|e| e.chunk_path).collect(),
    };
    let final_listed: Vec<String> = final_listed.into_iter().filter(|p| !dummy(p)).collect();
    let files = files_existing_at(seeds, &events, u64::MAX);
    let (reach, dangling) = reachable(&final_listed, &files, &idx);
    let lost: Vec<i64> = original.keys().filter(|id| !reach.contains_key(id)).cloned().collect();
    let dups: Vec<(i64, u32)> = reach.iter().filter(|(_, n)| **n > 1).map(|(i, n)| (*i, *n)).collect();
    let foreign: Vec<i64> = reach.keys().filter(|id| !original.contains_key(id)).cloned().collect();
    if !lost.is_empty() {
        sim::violation(
            "C03/row-unqueryable-at-quiescence",
            format!("after all compactors stopped: {} of {} rows are reachable through no listed chunk (ids {:?}); listed {:?}; listed-but-file-missing {:?}", lost.len(), original.len(), lost.iter().take(6).collect::<Vec<_>>(), final_listed.iter().map(|p| short(p)).collect::<Vec<_>>(), dangling.iter().map(|p| short(p)).collect::<Vec<_>>()),
        );
    }
    if !dups.is_empty() {
        sim::violation(
            "C03/row-duplicated-at-quiescence",
            format!("after all compactors stopped: {} rows are reachable more than once, e.g. {:?}; listed {:?}", dups.len(), dups.iter().take(4).collect::<Vec<_>>(), final_listed.iter().map(|p| short(p)).collect::<Vec<_>>()),
        );
    }
    if !foreign.is_empty() {
        sim::violation("C03/foreign-rows", format!("{} rows that were never stored are reachable", foreign.len()));
    }
    // (i') a row is queryable through a time-range lookup: the catalog's [min, max] of every listed chunk is the true
    // span of the rows in its file
    {
        let entries = match local {
            Some(l) => l.list_chunks().await.unwrap_or_default(),
            None => raw_client(inner).list_chunks().await.unwrap_or_default(),
        };
        for e in entries.iter().filter(|e| !dummy(&e.chunk_path)) {
            if let Some((mn, mx)) = idx.bounds.get(&e.chunk_path) {
                if (e.min_timestamp, e.max_timestamp) != (*mn, *mx) {
                    sim::violation("C03/chunk-bounds-wrong", format!("{}: the catalog says [{}, {}], its rows span [{mn}, {mx}] (rows outside the recorded span are invisible to time-range lookups)", short(&e.chunk_path), e.min_timestamp, e.max_timestamp));
                }
            }
        }
    }
    // (iii') both backends, any number of merge steps: a merged chunk sits above every level its rows came from
    for p in final_listed.iter().filter(|p| p.contains("/compacted/")) {
        let mine: BTreeSet<i64> = idx.ids.get(p).map(|v| v.iter().cloned().collect()).unwrap_or_default();
        let from: Vec<u32> = seeds.iter().filter(|s| !s.ids.is_empty() && s.ids.iter().all(|i| mine.contains(i))).map(|s| s.level).collect();
        if let Some(mx) = from.iter().max() {
            let lvl = level_of(local, inner, p).await;
            if lvl <= *mx {
                sim::violation("C03/merged-level-wrong", format!("merged chunk {} is at level {lvl} although its rows came from chunks of levels {:?}", short(p), from));
            }
        }
    }
    // (ii') the reachable rows are the stored rows value for value (floats bit for bit), not only id for id
    if lost.is_empty() && dups.is_empty() && foreign.is_empty() {
        let want = multiset(seeds.iter().flat_map(|s| s.rows.iter().cloned()));
        let got = multiset(final_listed.iter().filter(|p| files.contains(*p)).flat_map(|p| idx.rows.get(p).cloned().unwrap_or_default()));
        if want != got {
            let (m, e) = diff_multiset(&want, &got);
            let norm0 = |v: &String| v.replace("f:8000000000000000", "f:0000000000000000");
            let zero_only = multiset(m.iter().map(norm0)) == multiset(e.iter().map(norm0));
            sim::violation(
                if zero_only { "C03/row-content-altered/sign-of-zero" } else { "C03/row-content-altered" },
                format!("after all compactors stopped every row id is reachable once, but {} rows differ in content: stored e.g. {:?}, now e.g. {:?}", m.len(), m.iter().take(2).collect::<Vec<_>>(), e.iter().take(2).collect::<Vec<_>>()),
            );
        }
    }
    let puts = events.iter().filter(|e| e.op == "PUT" && e.ok && e.path.contains("/compacted/")).count();
    sim::probe_n("merged-files-uploaded", puts as u64);
    sim::probe_n("merges-published", merges);
    if local.is_some() && final_listed.iter().any(|p| p.contains("/compacted/")) {
        sim::probe_n("merges-published", 1);
        merges += 1;
    }
    let fired: u64 = sim::with(|st| st.faults.values().sum());
    let interleaved = sim::with(|st| st.interleaved);
    sim::set_extra("strict_nontrivial", serde_json::json!(merges > 0 && (fired > 0 || interleaved)));
    if merges == 0 {
        sim::probe("run-without-published-merge");
    }
    let leases = store::versions("compaction-leases.json");
    if let Some(l) = leases.last() {
        if let Ok(c) = serde_json::from_slice::<cardinalsin::metadata::CompactionLeases>(l.payload.as_ref().unwrap()) {
            let active = c.leases.values().filter(|x| x.status == cardinalsin::metadata::LeaseStatus::Active).count();
            if active > 0 {
                sim::probe_n("active-leases-left-behind", active as u64);
            }
        }
    }
    sim::state_sig(sim::hash_str(&format!("{:?}", final_listed.len())));
}

fn short(p: &str) -> String {
    let f = p.rsplit('/').next().unwrap_or(p);
    let lvl = p.split("level=").nth(1).map(|s| s.split('/').next().unwrap_or("")).unwrap_or("");
    if lvl.is_empty() {
        f.chars().take(18).collect()
    } else {
        format!("L{lvl}:{}", f.chars().take(14).collect::<String>())
    }
}

// ----------------------------------------------------------------------------------------
// C20
// ----------------------------------------------------------------------------------------

fn scen_c20(_spec: RunSpec) -> ScenFut {
    Box::pin(async move {
        store::keep_data_payloads(true);
        let inner = Arc::new(InMemory::new());
        let use_local = sim::w_bool(35);
        let local = if use_local { Some(Arc::new(LocalMetadataClient::new())) } else { None };
        let mut cfg = draw_cfg();
        cfg.l0_merge_threshold = sim::w_range(1, 5) as usize;
        cfg.gc_grace_period = Duration::from_secs(300);
        sim::set_cfg(|c| {
            c.adv_pct = 0;
            c.max_grants = 80_000;
        });
        let n_chunks = sim::w_range(3, 16) as usize;
        let buckets = sim::w_range(1, 3) as usize;
        let levels: Vec<u32> = (0..n_chunks).map(|_| [0u32, 0, 1, 2, 3][sim::w(5) as usize]).collect();
        // one dataset in thirty: 33..40 level-0 chunks in a single hour (more than any per-job cap one might think of)
        let (n_chunks, buckets, levels) = if sim::w(30) == 29 {
            sim::probe("more-than-32-l0-chunks-in-one-hour");
            let n = sim::w_range(33, 40) as usize;
            (n, 1usize, vec![0u32; n])
        } else {
            (n_chunks, buckets, levels)
        };
        let base = ((sim::EPOCH_NS as i64 - 48 * HOUR) / HOUR) * HOUR;
        let setup_meta: Arc<dyn MetadataClient> = match &local {
            Some(l) => l.clone(),
            None => Arc::new(ObjectStoreMetadataClient::new(SimStore::new(inner.clone(), 7), ObjectStoreMetadataConfig::default())),
        };
        let seeds = seed_dataset(&inner, setup_meta.as_ref(), n_chunks, buckets, &levels, base, 2).await;
        let versions_before = store::versions("catalog.json").len();
        let desc = format!(
            "catalog={} chunks={n_chunks} buckets={buckets} levels={:?} l0_threshold={} l1_target={} l2_target={} max_levels={}",
            if use_local { "local" } else { "object-store" },
            levels,
            cfg.l0_merge_threshold,
            cfg.l1_target_size,
            cfg.l2_target_size,
            cfg.max_levels
        );
        sim::log(format!("CONFIG {desc}"));
        sim::with(|st| st.sched_sig ^= sim::hash_str(&desc));
        let original: BTreeMap<i64, u32> = seeds.iter().flat_map(|s| s.ids.iter().map(|i| (*i, 1u32))).collect();
        let comp = mk_compactor(&cfg, &inner, 0, local.clone());
        let snapshot = |inner: Arc<InMemory>, local: Option<Arc<LocalMetadataClient>>| async move {
            // (path, level, size) set; levels only on the object-store backend
            match &local {
                Some(l) => {
                    let mut v: Vec<(String, u32, u64)> = Vec::new();
                    for e in l.list_chunks().await.unwrap_or_default() {
                        let lvl = level_of(Some(l.as_ref()), &inner, &e.chunk_path).await;
                        v.push((e.chunk_path, lvl, e.size_bytes));
                    }
                    v.sort();
                    v
                }
                None => match catalog_now(&inner).await {
                    Some(c) => {
                        let mut v: Vec<(String, u32, u64)> = c.chunks.iter().map(|(p, e)| (p.clone(), e.level, e.base.size_bytes)).collect();
                        v.sort();
                        v
                    }
                    None => vec![],
                },
            }
        };
        let mut states = vec![snapshot(inner.clone(), local.clone()).await];
        let n0 = states[0].len();
        let mut first_unchanged: Option<usize> = None;
        let mut cycle_errors = 0;
        for cycle in 0..(n0 + 2) {
            // candidate groups of this cycle (fresh view) must be pairwise disjoint
            let view: Arc<dyn MetadataClient> = match &local {
                Some(l) => l.clone(),
                None => Arc::new(raw_client(&inner)),
            };
            let mut groups: Vec<(String, Vec<String>)> = Vec::new();
            if let Ok(g) = view.get_l0_candidates(cfg.l0_merge_threshold).await {
                for x in g {
                    groups.push(("L0".into(), x));
                }
            }
            for level in 1..=cfg.max_levels {
                let target = match level {
                    1 => cfg.l1_target_size,
                    2 => cfg.l2_target_size,
                    _ => cfg.l2_target_size.saturating_mul(5),
                };
                if let Ok(g) = view.get_level_candidates(level, target).await {
                    for x in g {
                        groups.push((format!("L{level}"), x));
                    }
                }
            }
            let mut seen: BTreeMap<String, String> = BTreeMap::new();
            for (lvl, g) in &groups {
                let mut inside: BTreeSet<&String> = BTreeSet::new();
                for p in g {
                    if !inside.insert(p) {
                        sim::violation("C20/chunk-twice-in-one-group", format!("cycle {cycle}: {} appears twice in one {lvl} group", short(p)));
                    }
                    if let Some(other) = seen.insert(p.clone(), lvl.clone()) {
                        sim::violation("C20/chunk-in-two-groups", format!("cycle {cycle}: {} is selected into two groups ({other} and {lvl})", short(p)));
                    }
                }
            }
            if let Err(e) = comp.run_compaction_cycle().await {
                cycle_errors += 1;
                sim::log(format!("cycle {cycle} failed: {e}"));
            }
            tokio::time::sleep(Duration::from_secs(61)).await;
            let s = snapshot(inner.clone(), local.clone()).await;
            let prev = states.last().unwrap();
            if &s == prev {
                if first_unchanged.is_none() {
                    first_unchanged = Some(cycle);
                }
            } else if let Some(f) = first_unchanged {
                sim::violation(
                    "C20/changed-after-fixpoint",
                    format!("cycle {f} changed nothing but cycle {cycle} changed the catalog again ({} -> {} chunks)", prev.len(), s.len()),
                );
                first_unchanged = None;
            }
            states.push(s);
        }
        if cycle_errors > 0 {
            sim::probe_n("cycle-returned-error", cycle_errors);
        }
        // levels between consecutive cycles (both backends): a chunk that stays keeps or raises its level; the rows of
        // a merged chunk sit one level above the highest level they came from (levels only move up)
        {
            let idx = FileIndex::build(&inner, &seeds).await;
            for w in states.windows(2) {
                let (a, b) = (&w[0], &w[1]);
                let la: BTreeMap<&String, u32> = a.iter().map(|(p, l, _)| (p, *l)).collect();
                for (p, l, _) in b.iter() {
                    if p.contains("/dummy_") {
                        continue;
                    }
                    match la.get(p) {
                        Some(old) if l < old => sim::violation("C20/level-decreased", format!("{} went from level {old} to {l}", short(p))),
                        Some(_) => {}
                        None => {
                            // a new (merged) chunk: its sources are the retired chunks whose rows it holds
                            let mine: BTreeSet<i64> = idx.ids.get(p).map(|v| v.iter().cloned().collect()).unwrap_or_default();
                            let src_levels: Vec<u32> = a
                                .iter()
                                .filter(|(q, _, _)| !b.iter().any(|(x, _, _)| x == q))
                                .filter(|(q, _, _)| idx.ids.get(q).map(|v| !v.is_empty() && v.iter().all(|i| mine.contains(i))).unwrap_or(false))
                                .map(|(_, l, _)| *l)
                                .collect();
                            if let Some(mx) = src_levels.iter().max() {
                                if *l <= *mx {
                                    sim::violation("C20/rows-moved-down-a-level", format!("merged chunk {} is at level {l} although it replaced chunks of levels {:?}", short(p), src_levels));
                                }
                            }
                        }
                    }
                }
            }
        }
        match first_unchanged {
            Some(f) if f + 1 < n0 + 2 => {}
            _ => sim::violation("C20/no-fixpoint-within-bound", format!("no cycle among the first {} left the catalog unchanged together with its successor (initial chunks: {n0})", n0 + 2)),
        }
        // version history: single-level sources, levels never decrease
        let versions = store::versions("catalog.json");
        let mut prev: Option<MetadataCatalog> = None;
        let mut merges = 0;
        for (k, v) in versions.iter().enumerate() {
            let Ok(cat) = serde_json::from_slice::<MetadataCatalog>(v.payload.as_ref().unwrap()) else { continue };
            if k >= versions_before {
                if let Some(p) = &prev {
                    for (path, e) in &cat.chunks {
                        if let Some(o) = p.chunks.get(path) {
                            if e.level < o.level {
                                sim::violation("C20/level-decreased", format!("{} went from level {} to {}", short(path), o.level, e.level));
                            }
                        }
                    }
                    let removed: Vec<&String> = p.chunks.keys().filter(|x| !cat.chunks.contains_key(*x)).collect();
                    if removed.len() >= 2 {
                        merges += 1;
                        let lv: BTreeSet<u32> = removed.iter().map(|s| p.chunks[*s].level).collect();
                        if lv.len() > 1 {
                            sim::violation("C20/mixed-level-merge", format!("one merge retired chunks of levels {:?}", lv));
                        }
                    }
                }
            }
            prev = Some(cat);
        }
        if use_local && states.last().map(|s| s.len()).unwrap_or(0) < n0 {
            merges += 1;
        }
        sim::set_extra("strict_nontrivial", serde_json::json!(merges > 0));
        if merges > 0 {
            sim::probe_n("merges", merges);
        } else {
            sim::probe("nothing-to-merge-or-vacuous");
        }
        if states.last().map(|s| s.iter().any(|(_, l, _)| *l as usize > cfg.max_levels)).unwrap_or(false) {
            sim::probe("level-above-max_levels-reached");
        }
        sim::set_completed();
        // rows conserved (same oracle as C03 at quiescence)
        check_c03_quiescent_only(&inner, &seeds, &original, local.as_deref()).await;
        sim::state_sig(sim::hash_str(&format!("{:?}", states.last().map(|s| s.len()))));
    })
}

async fn check_c03_quiescent_only(inner: &Arc<InMemory>, seeds: &[SeedChunk], original: &BTreeMap<i64, u32>, local: Option<&LocalMetadataClient>) {
    let events = store::events();
    let idx = FileIndex::build(inner, seeds).await;
    let final_listed: Vec<String> = match local {
        Some(l) => l.list_chunks().await.unwrap_or_default().into_iter().map(|e| e.chunk_path).collect(),
        None => raw_client(inner).list_chunks().await.unwrap_or_default().into_iter().map(|e| e.chunk_path).collect(),
    };
    let final_listed: Vec<String> = final_listed.into_iter().filter(|p| !p.contains("/dummy_")).collect();
    let files = files_existing_at(seeds, &events, u64::MAX);
    let (reach, _) = reachable(&final_listed, &files, &idx);
    let lost = original.keys().filter(|id| !reach.contains_key(id)).count();
    let dups = reach.values().filter(|n| **n > 1).count();
    if lost > 0 || dups > 0 {
        // reported under C03's clauses by the C03 check; here only as a probe so that C20 stays about convergence
        sim::probe_n("rows-lost-or-duplicated(see C03)", (lost + dups) as u64);
    }
}
