//! Shared set-up and oracles for the compaction scenarios (C03, C09, C20).

use super::common::*;
use super::ingest::*;
use crate::core::sim;
use crate::core::store::{self, StoreEvent};
use cardinalsin::ingester::{ChunkMetadata, ParquetWriter};
use cardinalsin::metadata::{MetadataCatalog, MetadataClient};
use object_store::memory::InMemory;
use object_store::path::Path;
use object_store::{ObjectStore, PutPayload};
use std::collections::{BTreeMap, BTreeSet};
use std::sync::Arc;

#[derive(Debug, Clone)]
pub struct SeedChunk {
    pub path: String,
    pub ids: Vec<i64>,
    /// canonical row strings (floats bitwise)
    pub rows: Vec<String>,
    pub min: i64,
    pub max: i64,
    pub level: u32,
    pub size: u64,
}

/// Build a dataset the way the ingester would (ParquetWriter + register_chunk), un-gated.
/// `levels[i]` is the wanted initial level of chunk i.
pub async fn seed_dataset(
    inner: &Arc<InMemory>,
    meta: &dyn MetadataClient,
    n_chunks: usize,
    buckets: usize,
    levels: &[u32],
    base_ts: i64,
    variant: u32,
) -> Vec<SeedChunk> {
    let pw = ParquetWriter::new();
    let mut gen = RowGen::new();
    let mut out = Vec::new();
    // schema shapes: one dataset in twelve mixes chunks whose value column has the same name but another type (Int64
    // next to Float64); one in fifteen stores its timestamps in microseconds
    let mixed_types = variant == 2 && sim::w(12) == 11;
    let micros = variant == 2 && !mixed_types && sim::w(15) == 14;
    if mixed_types {
        sim::probe("dataset-mixes-value-column-types");
    }
    if micros {
        sim::probe("dataset-with-microsecond-timestamps");
    }
    // one dataset in twenty-five has a chunk that is read back in two record batches (more than 8192 rows)
    let big_chunk = if sim::w(25) == 24 { Some(sim::w(n_chunks.max(1) as u32) as usize) } else { None };
    for c in 0..n_chunks {
        let b = (c % buckets.max(1)) as i64;
        let nrows = 1 + sim::w(4) as usize;
        let nrows = if big_chunk == Some(c) {
            sim::probe("seed-chunk-with-two-record-batches");
            8192 + nrows
        } else {
            nrows
        };
        // a quarter of the chunks carry extreme values (both zeros, NaN, infinities, subnormals, NULL)
        let extreme = sim::w(4) == 3;
        // one chunk in five lies across the end of its hour bucket (indexed under two buckets, grouped under one)
        let straddle = sim::w(5) == 4;
        let nrows = if straddle { nrows.max(2) } else { nrows };
        let rows: Vec<Row> = (0..nrows)
            .map(|i| {
                let ts = if nrows > 8192 {
                    base_ts + b * HOUR + (c as i64 * 10) * SEC + i as i64 * 1_000_000
                } else if straddle {
                    base_ts + (b + 1) * HOUR - 5 * SEC + (i as i64) * 10 * SEC + c as i64
                } else {
                    base_ts + b * HOUR + (c as i64 * 10 + i as i64) * SEC
                };
                gen.row(ts, extreme)
            })
            .collect();
        let variant = if micros {
            9
        } else if mixed_types && sim::w_bool(50) {
            8
        } else {
            variant
        };
        let rows: Vec<Row> = if micros { rows.into_iter().map(|mut r| { r.ts -= r.ts.rem_euclid(1000); r }).collect() } else { rows };
        let rb = batch(variant, &rows);
        let bytes = pw.write_batch(&rb).expect("parquet");
        let path = format!("default/data/seed/chunk_{c}.parquet");
        inner.put(&Path::from(path.clone()), PutPayload::from(bytes.clone())).await.expect("put");
        let (min, max) = (rows.iter().map(|r| r.ts).min().unwrap(), rows.iter().map(|r| r.ts).max().unwrap());
        let m = ChunkMetadata { path: path.clone(), min_timestamp: min, max_timestamp: max, row_count: nrows as u64, size_bytes: bytes.len() as u64 };
        meta.register_chunk(&path, &m).await.expect("register seed chunk");
        let want = levels.get(c).copied().unwrap_or(0);
        let mut ctr = 0u32;
        raise_to(meta, &path, min, max, want, &mut ctr, c).await;
        out.push(SeedChunk { path, ids: rows.iter().map(|r| r.id).collect(), rows: decode_parquet(bytes.clone()).expect("seed chunk decodes").iter().flat_map(row_strings).collect(), min, max, level: want, size: bytes.len() as u64 });
    }
    out
}

/// Give a registered (level 0) chunk the level `k` using only public catalog operations:
/// complete_compaction(sources, target) sets level(target) = 1 + max level(sources present).
fn raise_to<'a>(
    meta: &'a dyn MetadataClient,
    path: &'a str,
    min: i64,
    max: i64,
    k: u32,
    ctr: &'a mut u32,
    c: usize,
) -> std::pin::Pin<Box<dyn std::future::Future<Output = ()> + Send + 'a>> {
    Box::pin(async move {
        if k == 0 {
            return;
        }
        if k == 1 {
            meta.complete_compaction(&[], path).await.expect("raise level");
            return;
        }
        *ctr += 1;
        let d = format!("default/data/seed/dummy_{c}_{}.parquet", *ctr);
        let dm = ChunkMetadata { path: d.clone(), min_timestamp: min, max_timestamp: max, row_count: 0, size_bytes: 1 };
        meta.register_chunk(&d, &dm).await.expect("dummy");
        raise_to(meta, &d, min, max, k - 1, ctr, c).await;
        meta.complete_compaction(&[d], path).await.expect("raise level");
    })
}

/// Level of a chunk: from the stored catalog (object-store backend) or through the guarded read-only observer
/// (in-memory backend).
pub async fn level_of(local: Option<&cardinalsin::metadata::LocalMetadataClient>, inner: &Arc<InMemory>, path: &str) -> u32 {
    match local {
        Some(l) => l.verif_chunk_level(path).unwrap_or(0),
        None => catalog_now(inner).await.and_then(|c| c.chunks.get(path).map(|e| e.level)).unwrap_or(0),
    }
}

pub async fn catalog_now(inner: &Arc<InMemory>) -> Option<MetadataCatalog> {
    let p = Path::from_iter(["metadata/", "catalog.json"]);
    let g = inner.get(&p).await.ok()?;
    let b = g.bytes().await.ok()?;
    serde_json::from_slice(&b).ok()
}

/// ids held by every data file ever PUT (from recorded payloads) plus the seed files still in the store.
pub struct FileIndex {
    pub ids: BTreeMap<String, Vec<i64>>,
    pub rows: BTreeMap<String, Vec<String>>,
    /// true (min, max) timestamp in ns of the rows of every data file ever PUT
    pub bounds: BTreeMap<String, (i64, i64)>,
}

impl FileIndex {
    pub async fn build(inner: &Arc<InMemory>, seeds: &[SeedChunk]) -> FileIndex {
        let mut ids = BTreeMap::new();
        let mut rows = BTreeMap::new();
        let mut bounds = BTreeMap::new();
        for s in seeds {
            ids.insert(s.path.clone(), s.ids.clone());
            rows.insert(s.path.clone(), s.rows.clone());
            bounds.insert(s.path.clone(), (s.min, s.max));
        }
        for e in store::events() {
            if e.op == "PUT" && e.ok && e.path.ends_with(".parquet") {
                if let Some(p) = &e.payload {
                    if let Ok(bs) = decode_parquet(p.clone()) {
                        ids.insert(e.path.clone(), bs.iter().flat_map(ids_of).collect());
                        rows.insert(e.path.clone(), bs.iter().flat_map(row_strings).collect());
                        let ts: Vec<i64> = bs.iter().flat_map(ts_of).collect();
                        if let (Some(mn), Some(mx)) = (ts.iter().min(), ts.iter().max()) {
                            bounds.insert(e.path.clone(), (*mn, *mx));
                        }
                    }
                }
            }
        }
        let _ = inner;
        FileIndex { ids, rows, bounds }
    }
}

/// Which data files exist right after store event number `ev` (seed files exist from the start).
pub fn files_existing_at(seeds: &[SeedChunk], events: &[StoreEvent], ev: u64) -> BTreeSet<String> {
    let mut s: BTreeSet<String> = seeds.iter().map(|c| c.path.clone()).collect();
    for e in events {
        if e.ev > ev {
            break;
        }
        if !e.ok || !e.path.ends_with(".parquet") {
            continue;
        }
        match e.op {
            "PUT" => {
                s.insert(e.path.clone());
            }
            "DELETE" => {
                s.remove(&e.path);
            }
            _ => {}
        }
    }
    s
}

/// Multiset of row ids reachable through a catalog (chunk list -> existing files -> ids).
pub fn reachable(chunks: &[String], files: &BTreeSet<String>, idx: &FileIndex) -> (BTreeMap<i64, u32>, Vec<String>) {
    let mut m = BTreeMap::new();
    let mut dangling = Vec::new();
    for p in chunks {
        if !files.contains(p) {
            dangling.push(p.clone());
            continue;
        }
        if let Some(ids) = idx.ids.get(p) {
            for id in ids {
                *m.entry(*id).or_insert(0) += 1;
            }
        }
    }
    (m, dangling)
}
