//! C13 — shard metadata changes are fenced by generation.

use super::common::*;
use crate::core::coord::PropDef;
use crate::core::run::{RunSpec, ScenFut};
use crate::core::sim::{self, Fault};
use crate::core::store::{self, SimStore};
use cardinalsin::metadata::{MetadataClient, ObjectStoreMetadataClient, ObjectStoreMetadataConfig};
use cardinalsin::sharding::{ShardMetadata, ShardRouter, ShardState};
use object_store::memory::InMemory;
use object_store::ObjectStore;
use std::sync::{Arc, Mutex};

pub static DEF: PropDef = PropDef {
    id: "C13",
    level: "exploration",
    engine: "meta-cas",
    rule: "four runs in five: 2..4 real ObjectStoreMetadataClients issuing 3..7 creations/updates each on 1..2 shard objects (one run in five: the same calls by 2..4 nodes on one shared in-memory LocalMetadataClient, interleaved at call granularity, every outcome and the stored state after it compared with a sequential model), expected generation taken from the node's last (possibly stale) read or deliberately wrong; every store request is a seeded scheduling point, 2/3 of runs add injected request failures/delays; distinct = distinct (node, request kind, object class, fault) grant sequence; non-trivial = completed AND (interleaved OR a fault fired)",
    quick_runs: 15000,
    thorough_runs: 150_000,
    run_cap_ms: 20_000,
    scen,
    extra_phase: None,
    real: &["cardinalsin::metadata::ObjectStoreMetadataClient::update_shard_metadata / get_shard_metadata", "cardinalsin::sharding::ShardRouter (generation-monotone cache)", "object_store InMemory"],
    stub: &["S3 = InMemory behind SimStore", "clock/entropy interposed"],
    assumptions: &["strongly consistent store with atomic conditional PUT", "the in-memory backend's check-then-insert has no request to interleave at and is not covered"],
};

#[derive(Debug, Clone)]
struct Rec {
    node: u32,
    shard: String,
    expected: u64,
    tag: i64,
    inv: u64,
    ret: u64,
    ok: bool,
    err: String,
}

fn mk_meta(shard: &str, tag: i64, state_k: u32) -> ShardMetadata {
    ShardMetadata {
        shard_id: shard.to_string(),
        generation: 777, // must be ignored by the implementation
        key_range: (vec![0], vec![255]),
        replicas: vec![],
        state: match state_k {
            0 => ShardState::Active,
            1 => ShardState::Splitting { new_shards: vec!["a".into(), "b".into()] },
            _ => ShardState::PendingDeletion { delete_after: 5 },
        },
        min_time: tag,
        max_time: 0,
    }
}

/// The in-memory backend (one shared client, calls of several nodes interleaved at call granularity): every call's
/// outcome and the stored state after it must be what a one-line sequential model says.
async fn local_variant() {
    use cardinalsin::metadata::LocalMetadataClient;
    let client = Arc::new(LocalMetadataClient::new());
    let nodes = sim::w_range(2, 4);
    let nshards = sim::w_range(1, 2);
    sim::log(format!("CONFIG backend=in-memory nodes={nodes} shards={nshards}"));
    // model: shard -> (generation, tag)
    let model: Arc<Mutex<std::collections::BTreeMap<String, (u64, i64)>>> = Arc::new(Mutex::new(Default::default()));
    let mut hs = Vec::new();
    for n in 0..nodes {
        let k = sim::w_range(3, 7);
        let ops: Vec<(u32, u32, u32, i64)> = (0..k).map(|j| (sim::w(nshards), sim::w(4), sim::w(3), (n as i64) * 1000 + j as i64 + 1)).collect();
        let client = client.clone();
        let model = model.clone();
        hs.push(tokio::spawn(async move {
            let mut last_seen: [u64; 2] = [0, 0];
            for (sh, mode, state_k, tag) in ops {
                sim::yield_point(n, "before shard call").await;
                let shard = format!("shard-{sh}");
                let expected = match mode {
                    1 => client.get_shard_metadata(&shard).await.ok().flatten().map(|m| m.generation).unwrap_or(0),
                    2 => 0,
                    3 => last_seen[sh as usize] + 1,
                    _ => last_seen[sh as usize],
                };
                let before = model.lock().unwrap().get(&shard).cloned();
                let should_succeed = match before {
                    Some((g, _)) => g == expected,
                    None => expected == 0,
                };
                let r = client.update_shard_metadata(&shard, &mk_meta(&shard, tag, state_k), expected).await;
                sim::log(format!("n{n} update {shard} expected={expected} tag={tag} -> {:?} (model before: {:?})", r.as_ref().map_err(|e| e.to_string()), before));
                match (&r, should_succeed) {
                    (Ok(()), true) => {
                        model.lock().unwrap().insert(shard.clone(), (expected + 1, tag));
                        last_seen[sh as usize] = expected + 1;
                    }
                    (Err(_), false) => sim::probe("stale-rejected"),
                    (Ok(()), false) => {
                        sim::violation("C13/stale-writer-overwrote", format!("in-memory backend: update of {shard} with expected generation {expected} succeeded although the stored state was {:?}", before));
                        model.lock().unwrap().insert(shard.clone(), (expected + 1, tag));
                    }
                    (Err(e), true) => sim::violation("C13/current-writer-rejected", format!("in-memory backend: update of {shard} based on the current generation {expected} was rejected: {e}")),
                }
                // the stored state is the model's
                let stored = client.get_shard_metadata(&shard).await.ok().flatten().map(|m| (m.generation, m.min_time));
                let want = model.lock().unwrap().get(&shard).cloned();
                if stored != want {
                    sim::violation("C13/generation-not-plus-one", format!("in-memory backend: {shard} holds (generation, tag) {:?} after the call, the history says {:?}", stored, want));
                }
            }
        }));
    }
    for h in hs {
        let _ = h.await;
    }
    sim::set_completed();
    sim::set_nontrivial();
}

fn scen(_spec: RunSpec) -> ScenFut {
    Box::pin(async move {
        // one run in five exercises the in-memory backend
        if sim::w(5) == 4 {
            local_variant().await;
            return;
        }
        let inner = Arc::new(InMemory::new());
        let nodes = sim::w_range(2, 4);
        let nshards = sim::w_range(1, 2);
        let profile = draw_store_fault_profile(true);
        let post = sim::w_bool(50);
        sim::set_cfg(|c| {
            c.post_gates = post;
            c.adv_pct = 3;
            c.ticks_ms = vec![50, 500, 5_000];
        });
        // a fifth of the runs starve one node's requests (adversarial schedule: conflict-retry exhaustion)
        if sim::w(5) == 4 {
            sim::set_cfg(|c| c.starve_node = Some(0));
            sim::probe("starved-node-schedule");
        }
        sim::log(format!("CONFIG nodes={nodes} shards={nshards} profile={profile} post_gates={post}"));
        let recs: Arc<Mutex<Vec<Rec>>> = Arc::new(Mutex::new(Vec::new()));
        let mut plans = Vec::new();
        for n in 0..nodes {
            let k = sim::w_range(3, 7);
            let mut ops = Vec::new();
            for j in 0..k {
                // (shard, mode, state): mode 0 = use last read generation, 1 = reread first, 2 = expected 0 (create), 3 = off by one
                ops.push((sim::w(nshards), sim::w(4), sim::w(3), (n as i64) * 1000 + j as i64 + 1));
            }
            plans.push(ops);
        }
        let mut hs = Vec::new();
        for (n, ops) in plans.into_iter().enumerate() {
            let n = n as u32;
            let store: Arc<dyn ObjectStore> = SimStore::new(inner.clone(), n);
            let client = ObjectStoreMetadataClient::new(store, ObjectStoreMetadataConfig::default());
            let recs = recs.clone();
            hs.push(tokio::spawn(async move {
                let mut last_seen: [u64; 2] = [0, 0];
                for (sh, mode, state_k, tag) in ops {
                    let shard = format!("shard-{sh}");
                    let expected = match mode {
                        1 => match client.get_shard_metadata(&shard).await {
                            Ok(Some(m)) => {
                                last_seen[sh as usize] = m.generation;
                                m.generation
                            }
                            Ok(None) => 0,
                            Err(_) => last_seen[sh as usize],
                        },
                        2 => 0,
                        3 => last_seen[sh as usize] + 1,
                        _ => last_seen[sh as usize],
                    };
                    let inv = sim::ev();
                    sim::log(format!("INVOKE n{n} update {shard} expected={expected} tag={tag}"));
                    let r = client.update_shard_metadata(&shard, &mk_meta(&shard, tag, state_k), expected).await;
                    let ret = sim::ev();
                    sim::log(format!("RETURN n{n} -> {:?}", r.as_ref().map_err(|e| e.to_string())));
                    if r.is_ok() {
                        last_seen[sh as usize] = expected + 1;
                    }
                    recs.lock().unwrap().push(Rec {
                        node: n,
                        shard,
                        expected,
                        tag,
                        inv,
                        ret,
                        ok: r.is_ok(),
                        err: r.err().map(|e| e.to_string()).unwrap_or_default(),
                    });
                }
            }));
        }
        for h in hs {
            let _ = h.await;
        }
        sim::faults_off();
        sim::set_completed();
        let recs = recs.lock().unwrap().clone();
        let events = store::events();
        let mut owned = vec![0u32; recs.len()];
        for sh in 0..nshards {
            let shard = format!("shard-{sh}");
            let versions = store::versions(&format!("{shard}.json"));
            let mut prev_gen = 0u64;
            let mut seen_versions: Vec<ShardMetadata> = Vec::new();
            for v in &versions {
                let m: ShardMetadata = match serde_json::from_slice(v.payload.as_ref().unwrap()) {
                    Ok(m) => m,
                    Err(e) => {
                        sim::violation("C13/version-unparseable", e.to_string());
                        return;
                    }
                };
                if m.generation != prev_gen + 1 {
                    sim::violation(
                        "C13/generation-not-plus-one",
                        format!("{shard}: version written at event {} has generation {} after generation {}", v.ev, m.generation, prev_gen),
                    );
                }
                match recs.iter().position(|r| r.tag == m.min_time && r.shard == shard) {
                    None => sim::violation("C13/unattributed-version", format!("{shard}: version with tag {} belongs to no call", m.min_time)),
                    Some(i) => {
                        owned[i] += 1;
                        let r = &recs[i];
                        if !(r.node == v.node && r.inv < v.ev && v.ev < r.ret) {
                            sim::violation("C13/version-outside-call", format!("{shard}: version tag {} written outside its call", r.tag));
                        }
                        if r.expected != prev_gen {
                            sim::violation(
                                "C13/stale-writer-overwrote",
                                format!(
                                    "{shard}: call by n{} with expected generation {} produced the version after generation {} (stale writer overwrote newer state)",
                                    r.node, r.expected, prev_gen
                                ),
                            );
                        }
                    }
                }
                prev_gen = m.generation;
                seen_versions.push(m);
            }
            // router part: feeding observed versions in any order never lowers the cached generation
            // the same with a 60 s TTL and time passing between the updates: an expired entry is not served, but a late
            // stale update must not bring an older generation back either
            if !seen_versions.is_empty() {
                let router = ShardRouter::new(std::time::Duration::from_secs(60));
                let key = cardinalsin::sharding::ShardKey::new(0, "cpu", 0);
                let mut maxg = 0;
                let k = seen_versions.len();
                for _ in 0..(2 * k) {
                    if sim::w(3) == 2 {
                        tokio::time::sleep(std::time::Duration::from_secs([30u64, 61, 200][sim::w(3) as usize])).await;
                    }
                    let mut m = seen_versions[sim::w(k as u32) as usize].clone();
                    m.state = ShardState::Active;
                    router.update_routing(m.clone());
                    maxg = maxg.max(m.generation);
                    if let Some(g) = router.get_shard(&key) {
                        if g.generation < maxg {
                            sim::violation("C13/router-generation-regressed", format!("{shard}: router (TTL 60 s, time passing) serves generation {} after having seen {maxg}", g.generation));
                        }
                    }
                }
            }
            if !seen_versions.is_empty() {
                let router = ShardRouter::new(std::time::Duration::from_secs(3600));
                let key = cardinalsin::sharding::ShardKey::new(0, "cpu", 0);
                let mut maxg = 0;
                let k = seen_versions.len();
                for _ in 0..(2 * k) {
                    let mut m = seen_versions[sim::w(k as u32) as usize].clone();
                    m.state = ShardState::Active;
                    router.update_routing(m.clone());
                    maxg = maxg.max(m.generation);
                    match router.get_shard(&key) {
                        Some(g) if g.generation < maxg => {
                            sim::violation("C13/router-generation-regressed", format!("{shard}: router caches generation {} after having seen {maxg}", g.generation));
                        }
                        Some(_) => {}
                        None => sim::violation("C13/router-lost-shard", format!("{shard}: router returns no shard after updates")),
                    }
                }
            }
            sim::probe_n("shard-versions", versions.len() as u64);
            sim::state_sig(sim::hash_str(&format!("{shard}:{prev_gen}")));
        }
        for (i, r) in recs.iter().enumerate() {
            let lost_response = events.iter().any(|e| {
                e.node == r.node && e.ev > r.inv && e.ev < r.ret && e.op == "PUT" && e.fault == Fault::FailAfter && e.ok
            });
            if r.ok && owned[i] != 1 {
                sim::violation("C13/success-owns-not-one-version", format!("update by n{} (expected {}) returned Ok but owns {} versions", r.node, r.expected, owned[i]));
            }
            if !r.ok && owned[i] != 0 && !(lost_response && owned[i] == 1) {
                sim::violation("C13/failure-had-effect", format!("update by n{} (expected {}) failed with {} but owns {} versions", r.node, r.expected, r.err, owned[i]));
            }
            if !r.ok && r.err.contains("tale") {
                sim::probe("stale-rejected");
            }
        }
        // at most one winner per (shard, base generation) — implied by +1 chain, checked explicitly
        let mut winners: std::collections::BTreeMap<(String, u64), u32> = Default::default();
        for (i, r) in recs.iter().enumerate() {
            if owned[i] > 0 {
                *winners.entry((r.shard.clone(), r.expected)).or_insert(0) += 1;
            }
        }
        for ((s, g), n) in winners {
            if n > 1 {
                sim::violation("C13/two-winners-same-base", format!("{s}: {n} updates based on generation {g} succeeded"));
            }
        }
        if events.iter().any(|e| e.op == "PUT" && !e.ok && e.err == "AlreadyExists") {
            sim::probe("create-race-lost");
        }
        if events.iter().any(|e| e.op == "PUT" && !e.ok && e.err == "Precondition") {
            sim::probe("etag-conflict");
        }
    })
}
