//! C02 — catalog mutations are atomic and never lost under concurrency.
//!
//! 2..4 real `ObjectStoreMetadataClient`s (each with its own cache) on one store,
//! interleaved at object-store-request granularity. Oracle: version-history
//! refinement of `catalog.json` against the sequential catalog model.

use super::common::*;
use crate::core::coord::PropDef;
use crate::core::run::{RunSpec, ScenFut};
use crate::core::sim::{self, Fault};
use crate::core::store::{self, SimStore};
use cardinalsin::metadata::{MetadataClient, ObjectStoreMetadataClient, ObjectStoreMetadataConfig, TimeRange};
use object_store::memory::InMemory;
use object_store::ObjectStore;
use std::sync::{Arc, Mutex};

pub static DEF: PropDef = PropDef {
    id: "C02",
    level: "exploration",
    engine: "meta-cas",
    rule: "one run = (one in five: on a store that starts in the legacy two-file layout without catalog.json) 2..4 real ObjectStoreMetadataClients executing 3..8 generated register/delete/complete_compaction/read ops each on one simulated store, every object-store request a scheduling point chosen by the seeded scheduler (plus injected request failures before/after effect and delays in 2/3 of runs); distinct = distinct hash of the (node, request kind, object class, fault) grant sequence; non-trivial = workload completed AND (requests of >=2 nodes interleaved inside an operation OR >=1 fault fired)",
    quick_runs: 15000,
    thorough_runs: 150_000,
    run_cap_ms: 20_000,
    scen,
    extra_phase: None,
    real: &["cardinalsin::metadata::ObjectStoreMetadataClient (CAS retry loop, catalog cache, legacy fallback)", "object_store::memory::InMemory (ETag / PutMode semantics)", "tokio timers (virtual)"],
    stub: &["S3 = InMemory behind SimStore", "clock and entropy (interposed)", "process boundaries (one task per node)"],
    assumptions: &["object store is strongly consistent with atomic conditional PUT", "after a lost response (fail-after-effect fault) the failed call may have taken effect once"],
};

#[derive(Debug, Clone)]
enum Op {
    Register { path: String, min: i64, max: i64 },
    Delete { path: String },
    Complete { sources: Vec<String>, target: String },
    Read { start: i64, end: i64 },
    List,
}

#[derive(Debug, Clone)]
struct OpRec {
    node: u32,
    op: Op,
    inv: u64,
    ret: u64,
    ok: bool,
    err: String,
    read: Option<Vec<String>>,
}

thread_local! {
    /// catalog content the run starts from (empty, or what the legacy layout holds)
    static INITIAL: std::cell::RefCell<CatModel> = std::cell::RefCell::new(CatModel::default());
}

fn scen(spec: RunSpec) -> ScenFut {
    Box::pin(async move {
        let _ = spec;
        let inner = Arc::new(InMemory::new());
        let nodes = sim::w_range(2, 4);
        let no_cas = sim::w(20) == 19;
        let profile = draw_store_fault_profile(!no_cas);
        let post = sim::w_bool(50);
        sim::set_cfg(|c| {
            c.post_gates = post;
            c.adv_pct = 3;
            c.ticks_ms = vec![50, 500, 5_000, 61_000];
        });
        // a fifth of the runs starve one node's requests (adversarial schedule: conflict-retry exhaustion)
        let starve = !no_cas && sim::w(5) == 4;
        if starve {
            // node 0's requests are slow (injected delays on its requests only) and are passed over by the
            // scheduler while the other nodes keep mutating the catalog at a steady pace: its CAS attempts
            // conflict again and again, up to exhaustion of the 5 retries
            sim::set_cfg(|c| {
                c.starve_node = Some(0);
                c.fault_nodes = vec![0];
                c.fail_before_pm = 0;
                c.fail_after_pm = 0;
                c.delay_pm = 700;
                c.delay_ms = vec![120, 250, 500];
                c.fault_budget = 40;
            });
            sim::probe("starved-node-schedule");
        }
        let unsafe_flag = !no_cas && sim::w(5) == 4;
        let cache_flag = sim::w_bool(50);
        sim::log(format!("CONFIG nodes={nodes} no_cas={no_cas} profile={profile} post_gates={post} allow_unsafe_overwrite={unsafe_flag} enable_cache={cache_flag}"));
        let base = sim::EPOCH_NS as i64;
        // generate workloads up front
        let mut all_paths: Vec<String> = Vec::new();
        // one run in five starts on a store in the legacy two-file layout (metadata.json + time-index.json, no
        // catalog.json): an upgraded deployment. The first mutations race for the creation of catalog.json from it.
        let mut initial = CatModel::default();
        if !no_cas && sim::w(5) == 4 {
            let setup = raw_client(&inner);
            for k in 0..sim::w_range(1, 3) {
                let path = format!("legacy/c{k}.parquet");
                let min = base - (k as i64 + 1) * HOUR;
                let _ = setup.register_chunk(&path, &chunk_meta(&path, min, min + HOUR / 2, 10, 100)).await;
                all_paths.push(path);
            }
            let ok = match setup.load_chunk_metadata().await {
                Ok(m) => setup.save_chunk_metadata(&m).await.is_ok() && setup.rebuild_time_index().await.is_ok(),
                Err(_) => false,
            };
            let listing = crate::core::store::raw_list(&inner).await;
            let cat = listing.iter().map(|x| x.0.clone()).find(|p| p.ends_with("catalog.json")).unwrap_or_default();
            let cat = object_store::path::Path::parse(&cat).unwrap_or_else(|_| object_store::path::Path::from("none"));
            if ok {
                if let Ok(g) = inner.get(&cat).await {
                    if let Ok(b) = g.bytes().await {
                        if let Ok(m) = CatModel::parse(&b) {
                            if inner.delete(&cat).await.is_ok() {
                                initial = m;
                                sim::probe("store-in-the-legacy-two-file-layout");
                            }
                        }
                    }
                }
            }
            if initial.chunks.is_empty() {
                sim::with(|st| st.abort = Some("legacy set-up failed".into()));
                return;
            }
        }
        INITIAL.with(|i| *i.borrow_mut() = initial.clone());
        let mut plans: Vec<Vec<Op>> = Vec::new();
        for n in 0..nodes {
            let k = if starve { if n == 0 { 2 } else { 30 } } else { sim::w_range(3, 8) };
            let mut ops = Vec::new();
            let mut mine = 0;
            for _ in 0..k {
                let kind = sim::w(10);
                match kind {
                    0..=4 => {
                        let path = format!("n{n}/c{mine}.parquet");
                        mine += 1;
                        let min = base - (sim::w(6) as i64) * HOUR + sim::w(3) as i64 * (HOUR / 2);
                        let max = min + [0, 1, HOUR - 1, HOUR, 3 * HOUR][sim::w(5) as usize];
                        all_paths.push(path.clone());
                        ops.push(Op::Register { path, min, max });
                    }
                    5 | 6 => {
                        let path = if all_paths.is_empty() || sim::w(8) == 7 {
                            "unknown/none.parquet".to_string()
                        } else {
                            all_paths[sim::w(all_paths.len() as u32) as usize].clone()
                        };
                        ops.push(Op::Delete { path });
                    }
                    7 => {
                        // register a target, then swap
                        let target = format!("n{n}/c{mine}.parquet");
                        mine += 1;
                        let ns = sim::w_range(1, 3) as usize;
                        let mut sources = Vec::new();
                        for _ in 0..ns {
                            if !all_paths.is_empty() {
                                let p = all_paths[sim::w(all_paths.len() as u32) as usize].clone();
                                if !sources.contains(&p) {
                                    sources.push(p);
                                }
                            }
                        }
                        if sim::w(6) == 5 {
                            sources.push("unknown/src.parquet".into());
                        }
                        let unknown_target = sim::w(8) == 7;
                        if !unknown_target {
                            let min = base - (sim::w(6) as i64) * HOUR;
                            ops.push(Op::Register { path: target.clone(), min, max: min + 2 * HOUR });
                            all_paths.push(target.clone());
                        }
                        ops.push(Op::Complete { sources, target });
                    }
                    8 => {
                        let start = base - (sim::w(7) as i64) * HOUR;
                        ops.push(Op::Read { start, end: start + (sim::w(4) as i64) * HOUR });
                    }
                    _ => ops.push(Op::List),
                }
            }
            plans.push(ops);
        }
        let recs: Arc<Mutex<Vec<OpRec>>> = Arc::new(Mutex::new(Vec::new()));
        let mut hs = Vec::new();
        for (n, ops) in plans.into_iter().enumerate() {
            let n = n as u32;
            let store: Arc<dyn ObjectStore> =
                if no_cas { SimStore::new_no_cas(inner.clone(), n) } else { SimStore::new(inner.clone(), n) };
            // non-default configuration in a part of the runs: the fallback flag for stores without conditional PUTs is
            // set although this store has them (it must stay a fallback), and the read-cache flag is flipped
            let mcfg = ObjectStoreMetadataConfig { allow_unsafe_overwrite: unsafe_flag, enable_cache: cache_flag, ..Default::default() };
            let client = ObjectStoreMetadataClient::new(store, mcfg);
            let recs = recs.clone();
            hs.push(tokio::spawn(async move {
                for op in ops {
                    if starve && n != 0 {
                        tokio::time::sleep(std::time::Duration::from_millis(90)).await;
                    }
                    let inv = sim::ev();
                    sim::log(format!("INVOKE n{n} {:?}", op));
                    let mut read = None;
                    let r: Result<(), String> = match &op {
                        Op::Register { path, min, max } => {
                            client.register_chunk(path, &chunk_meta(path, *min, *max, 10, 100)).await.map_err(|e| e.to_string())
                        }
                        Op::Delete { path } => client.delete_chunk(path).await.map_err(|e| e.to_string()),
                        Op::Complete { sources, target } => {
                            client.complete_compaction(sources, target).await.map_err(|e| e.to_string())
                        }
                        Op::Read { start, end } => match client.get_chunks(TimeRange::new(*start, *end)).await {
                            Ok(v) => {
                                let mut p: Vec<String> = v.into_iter().map(|e| e.chunk_path).collect();
                                p.sort();
                                read = Some(p);
                                Ok(())
                            }
                            Err(e) => Err(e.to_string()),
                        },
                        Op::List => match list_sorted(&client).await {
                            Ok(p) => {
                                read = Some(p);
                                Ok(())
                            }
                            Err(e) => Err(e),
                        },
                    };
                    let ret = sim::ev();
                    sim::log(format!("RETURN n{n} -> {:?}", r));
                    recs.lock().unwrap().push(OpRec {
                        node: n,
                        op,
                        inv,
                        ret,
                        ok: r.is_ok(),
                        err: r.err().unwrap_or_default(),
                        read,
                    });
                }
            }));
        }
        for h in hs {
            let _ = h.await;
        }
        sim::faults_off();
        sim::set_completed();
        let recs = recs.lock().unwrap().clone();
        check(&inner, &recs, no_cas).await;
    })
}

async fn check(inner: &Arc<InMemory>, recs: &[OpRec], no_cas: bool) {
    let versions = store::versions("catalog.json");
    let events = store::events();
    if no_cas {
        if !versions.is_empty() {
            sim::violation("C02/version-written-without-cas", format!("{} catalog versions were written although the store refuses conditional writes", versions.len()));
        }
        for r in recs {
            if r.ok && matches!(r.op, Op::Register { .. } | Op::Delete { .. } | Op::Complete { .. }) {
                sim::violation("C02/mutation-ok-without-cas", format!("{:?} reported success on a store without conditional writes", r.op));
            }
        }
        return;
    }
    // chain check
    let mut prev = INITIAL.with(|i| i.borrow().clone());
    let mut owned: Vec<u32> = vec![0; recs.len()];
    let mut models: Vec<CatModel> = vec![prev.clone()];
    for v in &versions {
        let got = match CatModel::parse(v.payload.as_ref().unwrap()) {
            Ok(g) => g,
            Err(e) => {
                sim::violation("C02/version-unparseable", e);
                return;
            }
        };
        if let Err(e) = got.agreement() {
            sim::violation("C02/index-map-disagree", format!("catalog version written at event {} by n{}: {e}", v.ev, v.node));
        }
        // which operation of that node was in flight?
        let owner = recs.iter().position(|r| r.node == v.node && r.inv < v.ev && v.ev < r.ret);
        match owner {
            None => {
                sim::violation("C02/unattributed-version", format!("catalog version at event {} by n{} belongs to no operation in flight", v.ev, v.node));
            }
            Some(i) => {
                owned[i] += 1;
                let mut exp = prev.clone();
                let applicable = match &recs[i].op {
                    Op::Register { path, min, max } => {
                        exp.register(&chunk_meta(path, *min, *max, 10, 100));
                        true
                    }
                    Op::Delete { path } => {
                        exp.delete(path);
                        true
                    }
                    Op::Complete { sources, target } => exp.complete(sources, target).is_ok(),
                    _ => false,
                };
                if !applicable {
                    sim::violation(
                        "C02/version-from-inapplicable-op",
                        format!("{:?} wrote a catalog version although the model says it must fail / not write", recs[i].op),
                    );
                } else if exp != got {
                    sim::violation(
                        "C02/lost-update-or-wrong-transition",
                        format!(
                            "catalog version at event {} (by n{} during {:?}) is not apply(op, previous version): expected chunks {:?} index {:?}, got chunks {:?} index {:?}",
                            v.ev,
                            v.node,
                            recs[i].op,
                            exp.chunks.keys().collect::<Vec<_>>(),
                            exp.index,
                            got.chunks.keys().collect::<Vec<_>>(),
                            got.index
                        ),
                    );
                }
            }
        }
        prev = got;
        models.push(prev.clone());
    }
    // ownership rules
    for (i, r) in recs.iter().enumerate() {
        let mutating = matches!(r.op, Op::Register { .. } | Op::Delete { .. } | Op::Complete { .. });
        if !mutating {
            if owned[i] != 0 {
                sim::violation("C02/read-wrote-version", format!("{:?} wrote {} versions", r.op, owned[i]));
            }
            continue;
        }
        let lost_response = events.iter().any(|e| {
            e.node == r.node && e.ev > r.inv && e.ev < r.ret && e.op == "PUT" && e.path.contains("catalog.json") && e.fault == Fault::FailAfter && e.ok
        });
        if r.ok && owned[i] != 1 {
            sim::violation(
                "C02/success-not-reflected-once",
                format!("{:?} by n{} reported success but owns {} catalog versions (must be exactly 1)", r.op, r.node, owned[i]),
            );
        }
        if !r.ok && owned[i] != 0 && !(lost_response && owned[i] == 1) {
            sim::violation(
                "C02/failure-had-effect",
                format!("{:?} by n{} reported failure ({}) but owns {} catalog versions", r.op, r.node, r.err, owned[i]),
            );
        }
        if !r.ok && lost_response {
            sim::probe("failed-op-with-lost-response");
        }
        if !r.ok && r.err.contains("Too many") {
            sim::probe("retries-exhausted");
        }
    }
    // reads: must equal the query on some version that existed before the read returned
    for r in recs.iter().filter(|r| r.read.is_some() && r.ok) {
        let upto = versions.iter().filter(|v| v.ev < r.ret).count();
        let got = r.read.as_ref().unwrap();
        let matches = models[..=upto].iter().any(|m| match &r.op {
            Op::Read { start, end } => &m.overlapping(*start, *end) == got,
            _ => &m.chunks.keys().cloned().collect::<Vec<_>>() == got,
        });
        if !matches {
            sim::violation("C02/read-matches-no-version", format!("{:?} by n{} returned {:?}, which matches no catalog version written before it returned", r.op, r.node, got));
        }
    }
    // fresh reader at quiescence == last version
    let fresh = raw_client(inner);
    match list_sorted(&fresh).await {
        Ok(l) => {
            let want: Vec<String> = prev.chunks.keys().cloned().collect();
            if l != want {
                sim::violation("C02/fresh-read-differs", format!("fresh client lists {:?}, last catalog version holds {:?}", l, want));
            }
        }
        Err(e) => sim::violation("C02/fresh-read-fails", e),
    }
    let conflicts = events.iter().filter(|e| e.op == "PUT" && !e.ok && (e.err == "Precondition" || e.err == "AlreadyExists")).count();
    if conflicts > 0 {
        sim::probe_n("cas-conflict", conflicts as u64);
    }
    if events.iter().any(|e| e.op == "PUT" && !e.ok && e.err == "AlreadyExists") {
        sim::probe("create-race-lost");
    }
    sim::state_sig(sim::hash_str(&format!("{:?}", prev.chunks.keys().collect::<Vec<_>>())));
    sim::probe_n("catalog-versions", versions.len() as u64);
}
