//! C11 — the query interfaces cannot modify stored data.

use super::common::*;
use super::ingest::*;
use super::sql::*;
use crate::core::coord::PropDef;
use crate::core::run::{RunSpec, ScenFut};
use crate::core::sim;
use crate::core::store::{self, SimStore};
use axum::body::Body;
use axum::http::{Request, StatusCode};
use cardinalsin::ingester::{Ingester, IngesterConfig};
use cardinalsin::metadata::{LocalMetadataClient, MetadataClient, ObjectStoreMetadataClient, ObjectStoreMetadataConfig};
use cardinalsin::query::{QueryConfig, QueryNode};
use cardinalsin::schema::MetricSchema;
use cardinalsin::StorageConfig;
use object_store::memory::InMemory;
use object_store::ObjectStore;
use std::sync::Arc;
use tower::ServiceExt;

pub static DEF: PropDef = PropDef {
    id: "C11",
    level: "exploration",
    engine: "query",
    rule: "one run = a store populated through the real ingester, a real QueryNode behind the real axum router (POST and GET /api/v1/sql, Prometheus instant-query endpoint) called in-process, plus the direct entry points QueryNode::query, QueryEngine::prepare and QueryEngine::analyze (the Flight SQL paths) and the streaming entry point, plus the node's real Flight SQL service (tonic server as run_query_grpc_server assembles it) reached by arrow-flight's own Flight SQL client over an in-memory duplex transport: statement queries (GetFlightInfo + DoGet), statement updates (DoPut), prepared statements executed either way; 8..16 statements generated from a grammar over what the embedded engine parses (COPY .. TO, CREATE [EXTERNAL] TABLE / VIEW, CREATE TABLE AS, DROP TABLE / VIEW incl. metrics, INSERT, DELETE / UPDATE / TRUNCATE, CREATE / DROP SCHEMA and DATABASE, CREATE / DROP FUNCTION, CREATE INDEX, ALTER TABLE, PREPARE / EXECUTE / DEALLOCATE, SET, EXPLAIN [ANALYZE] of those, multi-statement strings, plain SELECT / EXPLAIN SELECT / SHOW as controls) with target locations drawn from fresh paths, existing chunk paths and the catalog object; after every statement: the query node's store handle issued no mutating request, the full object listing (path, size, ETag) is unchanged, a fixed probe query returns the same answer, the session's catalog / schema / table names and configuration options are unchanged, and a mutating statement returned an error; distinct = distinct (statement text, entry point) hash; non-trivial = a mutating statement was submitted",
    quick_runs: 800,
    thorough_runs: 6000,
    run_cap_ms: 120_000,
    scen,
    extra_phase: None,
    real: &["api::build_http_router (axum handlers sql_http, prometheus_api) driven with tower::Service::oneshot", "QueryNode::query / query_stream, QueryEngine::{prepare, analyze}", "FlightSqlFlightService / FlightSqlGrpcService behind tonic (HTTP/2 over an in-memory duplex) + arrow-flight FlightSqlServiceClient", "DataFusion SQL front end incl. COPY/DDL/DML planning and execution"],
    stub: &["S3 = InMemory behind SimStore (per-issuer request log is the observation instrument)", "no sockets: HTTP handlers are called in-process, gRPC runs over tokio::io::duplex"],
    assumptions: &["no schedule or fault dimension in this statement: the simulator's storage seam is the instrument, the statement space is seeded generation"],
};

/// What later queries see besides the data: every (catalog, schema, table) name of the node's session and its
/// configuration options.
fn session_snapshot(qn: &QueryNode) -> (Vec<String>, Vec<String>) {
    let ctx = qn.engine.context();
    let mut names = Vec::new();
    for c in ctx.catalog_names() {
        if let Some(cat) = ctx.catalog(&c) {
            for s in cat.schema_names() {
                names.push(format!("{c}.{s}"));
                if let Some(sch) = cat.schema(&s) {
                    for t in sch.table_names() {
                        // per-chunk helper tables come and go with ordinary queries; the logical names matter
                        if !t.contains("chunk_") {
                            names.push(format!("{c}.{s}.{t}"));
                        }
                    }
                }
            }
        }
    }
    names.sort();
    let state = ctx.state();
    let mut opts: Vec<String> = state.config_options().entries().into_iter().map(|e| format!("{}={:?}", e.key, e.value)).collect();
    opts.sort();
    (names, opts)
}

struct Stmt {
    sql: String,
    mutating: bool,
}

fn gen_stmt(chunk_paths: &[String]) -> Stmt {
    let base = "s3://cardinalsin-data";
    let fresh = format!("{base}/default/data/evil_{}.parquet", sim::w(1000));
    let fresh_dir = format!("{base}/default/data/evil_dir_{}/", sim::w(1000));
    let existing = format!("{base}/{}", chunk_paths[sim::w(chunk_paths.len() as u32) as usize]);
    let catalog = format!("{base}/metadata%2F/catalog.json");
    let target = match sim::w(5) {
        0 | 1 => fresh.clone(),
        2 => existing.clone(),
        3 => catalog,
        _ => fresh_dir.clone(),
    };
    let sel = ["SELECT 1 AS x", "SELECT * FROM metrics", "SELECT timestamp, metric_name, value_i64 FROM metrics WHERE value_i64 > 2"][sim::w(3) as usize];
    let core: (String, bool) = match sim::w(24) {
        // schemas / catalogs / functions / indexes / row-level DML / prepared statements of the engine's own dialect
        16 => (["CREATE SCHEMA scratch", "CREATE SCHEMA IF NOT EXISTS scratch", "CREATE DATABASE other", "CREATE SCHEMA datafusion.s2"][sim::w(4) as usize].to_string(), true),
        17 => (["DROP SCHEMA IF EXISTS public CASCADE", "DROP SCHEMA public CASCADE", "drop schema datafusion.public cascade", "DROP SCHEMA IF EXISTS no_such_schema"][sim::w(4) as usize].to_string(), true),
        18 => (["DELETE FROM metrics", "DELETE FROM metrics WHERE value_i64 > 2", "UPDATE metrics SET value_i64 = 0", "TRUNCATE TABLE metrics"][sim::w(4) as usize].to_string(), true),
        19 => (["CREATE FUNCTION f1(DOUBLE) RETURNS DOUBLE RETURN $1 + 1", "DROP FUNCTION IF EXISTS abs", "CREATE INDEX i1 ON metrics (metric_name)", "ALTER TABLE metrics RENAME TO m2"][sim::w(4) as usize].to_string(), true),
        20 => (["PREPARE p1 AS SELECT 1", "PREPARE p2(INT) AS SELECT * FROM metrics WHERE value_i64 > $1", "DEALLOCATE p1", "EXECUTE p1"][sim::w(4) as usize].to_string(), true),
        21 => (format!("CREATE UNBOUNDED EXTERNAL TABLE u{} (a INT) STORED AS CSV LOCATION '{fresh_dir}'", sim::w(50)), true),
        22 => (format!("INSERT INTO metrics SELECT * FROM metrics; SELECT 1"), true),
        23 => (format!("COPY ({sel}) TO '{target}' STORED AS CSV"), true),
        0 => (format!("COPY ({sel}) TO '{target}'"), true),
        1 => (format!("COPY ({sel}) TO '{target}' STORED AS PARQUET"), true),
        2 => (format!("COPY metrics TO '{target}' STORED AS PARQUET"), true),
        3 => (format!("CREATE EXTERNAL TABLE ext{} STORED AS PARQUET LOCATION '{existing}'", sim::w(50)), true),
        4 => (format!("CREATE TABLE t{} AS {sel}", sim::w(50)), true),
        5 => (format!("CREATE VIEW v{} AS {sel}", sim::w(50)), true),
        6 => ("CREATE OR REPLACE VIEW metrics AS SELECT 1 AS timestamp, 'x' AS metric_name".to_string(), true),
        7 => ("DROP TABLE metrics".to_string(), true),
        8 => ("DROP TABLE IF EXISTS metrics".to_string(), true),
        9 => ("DROP VIEW IF EXISTS metrics".to_string(), true),
        10 => ("INSERT INTO metrics SELECT * FROM metrics".to_string(), true),
        11 => ("INSERT INTO metrics (timestamp, metric_name, value_i64, id) VALUES (1, 'evil', 1, 999999)".to_string(), true),
        12 => (["SET datafusion.execution.batch_size = 1", "SET datafusion.execution.target_partitions = 7", "SET datafusion.sql_parser.enable_ident_normalization = false"][sim::w(3) as usize].to_string(), true),
        13 => (format!("SELECT 1; COPY ({sel}) TO '{target}'"), true),
        14 => (format!("CREATE EXTERNAL TABLE w{} (a INT) STORED AS CSV LOCATION '{fresh_dir}'", sim::w(50)), true),
        _ => (sel.to_string(), false),
    };
    // wrappers
    let (sql, mutating) = match sim::w(6) {
        0 if core.1 => (format!("EXPLAIN ANALYZE {}", core.0), true),
        // EXPLAIN of a mutating statement does not execute it: allowed either way (not judged as mutating)
        1 => (format!("EXPLAIN {}", core.0), false),
        _ => core,
    };
    Stmt { sql, mutating }
}

fn scen(_spec: RunSpec) -> ScenFut {
    Box::pin(async move {
        let inner = Arc::new(InMemory::new());
        let qstore: Arc<dyn ObjectStore> = SimStore::new(inner.clone(), 0);
        let istore: Arc<dyn ObjectStore> = SimStore::new(inner.clone(), 7);
        let use_local = sim::w_bool(50);
        let local = Arc::new(LocalMetadataClient::new());
        let (imeta, qmeta): (Arc<dyn MetadataClient>, Arc<dyn MetadataClient>) = if use_local {
            (local.clone(), local.clone())
        } else {
            (
                Arc::new(ObjectStoreMetadataClient::new(istore.clone(), ObjectStoreMetadataConfig::default())),
                Arc::new(ObjectStoreMetadataClient::new(qstore.clone(), ObjectStoreMetadataConfig::default())),
            )
        };
        sim::set_cfg(|c| {
            c.adv_pct = 0;
            c.enabled = false;
            c.max_grants = 300_000;
        });
        let now = sim::wall_ns();
        let mut icfg = IngesterConfig::default();
        icfg.wal.enabled = false;
        icfg.flush_row_count = 4;
        let ing = Arc::new(Ingester::new(icfg, istore.clone(), imeta.clone(), StorageConfig::default(), MetricSchema::default_metrics()));
        let mut gen = RowGen::new();
        for _ in 0..3 {
            let rows: Vec<Row> = (0..4).map(|i| gen.row(now - 10 * 60 * SEC + i, false)).collect();
            ing.write(batch(1, &rows)).await.expect("ingest");
        }
        let chunk_paths: Vec<String> = imeta.list_chunks().await.unwrap().into_iter().map(|c| c.chunk_path).collect();
        let mut qc = QueryConfig::default();
        qc.l2_cache_dir = None;
        let mut qn = QueryNode::new(qc, qstore.clone(), qmeta.clone(), StorageConfig::default()).await.expect("query node");
        qn.connect_broadcast(ing.subscribe());
        let qn = Arc::new(qn);
        let router = cardinalsin::api::build_http_router(ing.clone(), qn.clone());
        let probe_sql = format!("SELECT count(*) AS c, sum(value_i64) AS s, min(id) AS lo FROM metrics WHERE timestamp >= {} AND timestamp <= {}", now - HOUR, now);
        let probe0 = match qn.query(&probe_sql).await {
            Ok(b) => result_multiset(&b),
            Err(e) => {
                sim::violation("C11/probe-query-failed", e.to_string());
                return;
            }
        };
        let listing0 = store::raw_list(&inner).await;
        let session0 = session_snapshot(&qn);
        let mut flight = match super::flight::connect(qn.clone()).await {
            Ok(c) => c,
            Err(e) => {
                sim::with(|st| st.abort = Some(format!("flight sql client: {e}")));
                return;
            }
        };
        let q_events0 = store::with_events(|e| e.len());
        let n = sim::w_range(8, 16);
        let mut hist = String::new();
        let mut any_mut = false;
        for k in 0..n {
            let st = gen_stmt(&chunk_paths);
            let entry = sim::w(12);
            any_mut |= st.mutating;
            let ev_before = store::with_events(|e| e.len());
            let (entry_name, outcome): (&str, Result<String, String>) = match entry {
                0 | 1 => ("QueryNode::query", qn.query(&st.sql).await.map(|b| format!("{} batches", b.len())).map_err(|e| e.to_string())),
                2 => {
                    let body = serde_json::json!({"query": st.sql}).to_string();
                    let req = Request::builder().method("POST").uri("/api/v1/sql").header("content-type", "application/json").body(Body::from(body)).unwrap();
                    let resp = router.clone().oneshot(req).await.unwrap();
                    let code = resp.status();
                    ("POST /api/v1/sql", if code == StatusCode::OK { Ok(format!("{code}")) } else { Err(format!("{code}")) })
                }
                3 => {
                    let q: String = st.sql.bytes().map(|b| if b.is_ascii_alphanumeric() { (b as char).to_string() } else { format!("%{:02X}", b) }).collect();
                    let req = Request::builder().method("GET").uri(format!("/api/v1/sql?query={q}")).body(Body::empty()).unwrap();
                    let resp = router.clone().oneshot(req).await.unwrap();
                    let code = resp.status();
                    ("GET /api/v1/sql", if code == StatusCode::OK { Ok(format!("{code}")) } else { Err(format!("{code}")) })
                }
                7 | 8 => ("Flight SQL CommandStatementQuery (GetFlightInfo + DoGet)", super::flight::query(&mut flight, &st.sql).await.map(|b| format!("{} batches", b.len()))),
                9 => ("Flight SQL CommandStatementUpdate (DoPut)", super::flight::update(&mut flight, &st.sql).await.map(|n| format!("{n} rows affected"))),
                10 => ("Flight SQL prepared statement, executed as a query", super::flight::prepared(&mut flight, &st.sql, false).await),
                11 => ("Flight SQL prepared statement, executed as an update", super::flight::prepared(&mut flight, &st.sql, true).await),
                4 => ("QueryEngine::prepare (Flight SQL)", qn.engine.prepare(&st.sql).await.map(|_| "handle".to_string()).map_err(|e| e.to_string())),
                5 => ("QueryEngine::analyze (Flight SQL)", qn.engine.analyze(&st.sql).await.map(|_| "plan".to_string()).map_err(|e| e.to_string())),
                _ => (
                    "QueryNode::query_stream",
                    match qn.query_stream(&st.sql).await {
                        Ok(mut rx) => {
                            // drain the historical part
                            let mut nb = 0;
                            while let Ok(Some(_)) = tokio::time::timeout(std::time::Duration::from_millis(10), rx.recv()).await {
                                nb += 1;
                                if nb > 100 {
                                    break;
                                }
                            }
                            Ok(format!("stream, {nb} batches"))
                        }
                        Err(e) => Err(e.to_string()),
                    },
                ),
            };
            sim::log(format!("STMT{k} via {entry_name}: {} -> {:?}", st.sql, outcome.as_ref().map_err(|e| e.chars().take(100).collect::<String>())));
            hist.push_str(&format!("{entry}:{};", st.sql));
            let kind = st.sql.split_whitespace().take(if st.sql.starts_with("EXPLAIN") { 3 } else { 2 }).collect::<Vec<_>>().join("-").to_lowercase();
            // 1. no mutating request from the query node's handle
            let bad: Vec<String> = store::with_events(|e| {
                e[ev_before..].iter().filter(|x| x.node == 0 && matches!(x.op, "PUT" | "PUT_MULTIPART" | "DELETE" | "COPY" | "COPY_IF_NOT_EXISTS")).map(|x| format!("{} {}", x.op, x.path)).collect()
            });
            if !bad.is_empty() {
                sim::violation(format!("C11/store-mutated/{kind}"), format!("{} via {entry_name} made the query node issue {:?}", st.sql, bad));
            }
            // 2. listing unchanged
            let listing = store::raw_list(&inner).await;
            if listing != listing0 {
                let added: Vec<&String> = listing.iter().map(|x| &x.0).filter(|p| !listing0.iter().any(|y| &y.0 == *p)).collect();
                let removed: Vec<&String> = listing0.iter().map(|x| &x.0).filter(|p| !listing.iter().any(|y| &y.0 == *p)).collect();
                if bad.is_empty() {
                    sim::violation(format!("C11/store-mutated/{kind}"), format!("{} via {entry_name}: objects added {:?}, removed {:?}, or rewritten", st.sql, added, removed));
                }
                sim::set_completed();
                return;
            }
            // 3. probe query unchanged
            match qn.query(&probe_sql).await {
                Ok(b) => {
                    if result_multiset(&b) != probe0 {
                        sim::violation(format!("C11/later-queries-changed/{kind}"), format!("after {} via {entry_name} the probe query answers differently: {}", st.sql, describe_diff(&probe0, &result_multiset(&b))));
                        sim::set_completed();
                        return;
                    }
                }
                Err(e) => {
                    sim::violation(format!("C11/later-queries-changed/{kind}"), format!("after {} via {entry_name} the probe query fails: {}", st.sql, e.to_string().chars().take(160).collect::<String>()));
                    sim::set_completed();
                    return;
                }
            }
            // 3b. the session's catalogs / schemas / tables and its configuration are what they were
            let session = session_snapshot(&qn);
            if session != session0 {
                let diff = |a: &Vec<String>, b: &Vec<String>| -> (Vec<String>, Vec<String>) { (b.iter().filter(|x| !a.contains(x)).cloned().collect(), a.iter().filter(|x| !b.contains(x)).cloned().collect()) };
                let (n_add, n_rem) = diff(&session0.0, &session.0);
                let (o_add, o_rem) = diff(&session0.1, &session.1);
                sim::violation(
                    format!("C11/later-queries-changed/{kind}"),
                    format!("after {} via {entry_name} the node's session differs: names added {:?}, removed {:?}; options now {:?}, before {:?}", st.sql, n_add, n_rem, o_add, o_rem),
                );
                sim::set_completed();
                return;
            }
            // 4. a statement that would write or redefine tables must be rejected
            if st.mutating && outcome.is_ok() {
                sim::violation(format!("C11/mutating-statement-accepted/{kind}"), format!("{} via {entry_name} was executed ({}) instead of being rejected", st.sql, outcome.unwrap()));
            }
        }
        let _ = q_events0;
        sim::set_completed();
        sim::set_extra("strict_nontrivial", serde_json::json!(any_mut));
        sim::with(|st| st.sched_sig ^= sim::hash_str(&hist));
    })
}
