//! C06 — fault-free ingest stores each accepted row exactly once, with exact metadata.

use super::common::*;
use super::ingest::*;
use crate::core::coord::PropDef;
use crate::core::disk;
use crate::core::run::{RunSpec, ScenFut};
use crate::core::sim;
use crate::core::store::SimStore;
use cardinalsin::ingester::{Ingester, IngesterConfig, TopicFilter, WalConfig, WalSyncMode};
use cardinalsin::metadata::{LocalMetadataClient, MetadataClient, ObjectStoreMetadataClient, ObjectStoreMetadataConfig};
use cardinalsin::schema::MetricSchema;
use cardinalsin::StorageConfig;
use object_store::memory::InMemory;
use object_store::ObjectStore;
use std::sync::{Arc, Mutex};
use std::time::Duration;

pub static DEF: PropDef = PropDef {
    id: "C06",
    level: "exploration",
    engine: "ingest",
    rule: "one run = a real Ingester (WAL on or off, object-store or in-memory catalog, flush_row_count 2..50 or (one run in five) a size threshold of 300 B..6 KB, flush_interval 0.2..5 s, sometimes a tiny max_buffer_size) with 2..4 concurrent writer tasks issuing 3..8 writes each of 1..50-row batches (thorough tier: 16 extra runs whose first write has 520 000..600 000 rows; one write in seven re-sends the previous batch unchanged) over 7 schema variants (both timestamp types, three that differ from the first one only in a column's nullability, in column order, or in schema metadata, nullable label, i64/u64/f64 extremes incl. NaN/-0/inf/subnormal, timestamps up to i64::MAX) plus the flush timer and two subscribers; no storage faults; requests go through the real Arrow-Flight and OTLP ingest handlers or straight to Ingester::write; a third of the runs drop one handler future in five at a seeded point (client disconnect; that request's rows may or may not be stored, everybody else's must be); every object-store request and the post-WAL-append pause point is a seeded scheduling point; distinct = distinct grant sequence; non-trivial = completed AND writers/flushes interleaved",
    quick_runs: 4000,
    thorough_runs: 60_000,
    run_cap_ms: 120_000,
    scen,
    extra_phase: Some(big_flush_phase),
    real: &["Ingester (write, buffer, threshold + timer flush, ParquetWriter, broadcast + topic broadcast)", "api::ingest::flight_ingest::FlightIngestService::process_stream, api::ingest::otlp::OtlpReceiver::ingest (request handlers)", "WriteAheadLog on the shim disk", "ObjectStoreMetadataClient / LocalMetadataClient"],
    stub: &["S3 = InMemory behind SimStore", "disk = tmpfs shim", "clock/entropy interposed"],
    assumptions: &["chunk time spans stay below 30 days (registration cost is linear in hour buckets spanned)", "subscribers keep up (channel capacity 1024 is never reached)"],
};

fn scen(spec: RunSpec) -> ScenFut {
    Box::pin(async move {
        // a quarter of the runs hand every hash table an unlucky-but-legal key (see sim::adversarial_hash_pool)
        let adv_hash = crate::core::run::mix2(spec.seed, 5) % 4 == 0;
        if adv_hash {
            sim::set_adversarial_hash(true);
        }
        let inner = Arc::new(InMemory::new());
        let store: Arc<dyn ObjectStore> = SimStore::new(inner.clone(), 0);
        let local_meta = sim::w_bool(35);
        let meta: Arc<dyn MetadataClient> = if local_meta {
            Arc::new(LocalMetadataClient::new())
        } else {
            Arc::new(ObjectStoreMetadataClient::new(store.clone(), ObjectStoreMetadataConfig::default()))
        };
        let wal_on = sim::w_bool(50);
        let mut cfg = IngesterConfig::default();
        cfg.flush_row_count = [2usize, 3, 4, 8, 50][sim::w(5) as usize];
        cfg.flush_interval = Duration::from_millis([200u64, 1000, 5000][sim::w(3) as usize]);
        let tiny_buffer = sim::w(6) == 5;
        if tiny_buffer {
            cfg.max_buffer_size_bytes = 2500;
        }
        // one run in five flushes by size instead of by row count
        let by_size = sim::w(5) == 4;
        if by_size {
            cfg.flush_row_count = 1_000_000;
            cfg.flush_size_bytes = [300usize, 1500, 6000][sim::w(3) as usize];
        }
        let post = sim::w_bool(50);
        sim::set_cfg(|c| {
            c.post_gates = post;
            c.adv_pct = 8;
            c.ticks_ms = vec![50, 250, 1100, 6000];
        });
        if wal_on {
            disk::install(0);
            let dir = disk::scratch_dir("wal");
            cfg.wal = WalConfig { wal_dir: dir.into(), max_segment_size: [1usize, 3000, 1 << 20][sim::w(3) as usize], sync_mode: WalSyncMode::EveryWrite, enabled: true };
        } else {
            cfg.wal.enabled = false;
        }
        sim::log(format!(
            "CONFIG catalog={} wal={wal_on} flush_rows={} flush_interval={:?} tiny_buffer={tiny_buffer} flush_by_size={by_size} post_gates={post} adversarial_hash_keys={adv_hash}",
            if local_meta { "local" } else { "object-store" },
            cfg.flush_row_count,
            cfg.flush_interval
        ));
        let mut ing = Ingester::new(cfg, store.clone(), meta.clone(), StorageConfig::default(), MetricSchema::default_metrics());
        if wal_on {
            if let Err(e) = ing.ensure_wal().await {
                sim::violation("C06/unexpected-error", format!("ensure_wal: {e}"));
                return;
            }
        }
        let ing = Arc::new(ing);
        let mut legacy_sub = ing.subscribe();
        let mut topic_sub = ing.subscribe_filtered(TopicFilter::All).await;
        let topic_rows: Arc<Mutex<Vec<String>>> = Arc::new(Mutex::new(Vec::new()));
        let tr = topic_rows.clone();
        let collector = tokio::spawn(async move {
            while let Ok(b) = topic_sub.recv().await {
                tr.lock().unwrap().extend(row_strings(&b));
            }
        });
        let tok = ing.shutdown_token();
        let i2 = ing.clone();
        let timer = tokio::spawn(async move { i2.run_flush_timer().await });

        // workload
        let extreme_ts = sim::w(8) == 7;
        let now = sim::EPOCH_NS as i64;
        let writers = sim::w_range(2, 4);
        let mut gen = RowGen::new();
        // a third of the runs contain client disconnects: the request's future is dropped at a seeded point
        let with_cancel = sim::w(3) == 2;
        let mut plans: Vec<Vec<(u32, Vec<Row>, u64, Option<u32>)>> = Vec::new();
        for _ in 0..writers {
            let base_variant = [0u32, 1, 2, 3, 5, 6, 7][sim::w(7) as usize];
            let k = sim::w_range(3, 8);
            let mut ops: Vec<(u32, Vec<Row>, u64, Option<u32>)> = Vec::new();
            for _ in 0..k {
                // a client that re-sends a batch it already sent (a scrape delivered twice): every copy is an
                // accepted write of its own, so every copy must be stored
                if !ops.is_empty() && sim::w(7) == 6 {
                    let again = ops[ops.len() - 1].clone();
                    sim::probe("batch-sent-twice");
                    ops.push(again);
                    continue;
                }
                let variant = if sim::w(4) == 3 { [0u32, 1, 2, 3, 5, 6, 7][sim::w(7) as usize] } else { base_variant };
                let nrows = [1usize, 1, 2, 3, 5, 50][sim::w(6) as usize];
                let extreme_vals = sim::w(4) == 3;
                // thorough-only phase: the very first write of the run is a scrape of more than half a million rows
                // (one flush group far beyond anything a per-chunk bound might assume); generated arithmetically
                if spec.variant == "bigflush" && plans.is_empty() && ops.is_empty() {
                    sim::probe("flush-of-more-than-500000-rows");
                    let n = 520_000 + 1000 * sim::w(80) as usize;
                    let rows: Vec<Row> = (0..n)
                        .map(|i| {
                            let id = gen.next_id;
                            gen.next_id += 1;
                            Row { id, ts: now - HOUR + i as i64 * 1000, metric: ["cpu", "mem", "disk"][i % 3].to_string(), host: None, vi: Some((i % 11) as i64), vf: None, vu: None }
                        })
                        .collect();
                    ops.push((0, rows, 0, None));
                    continue;
                }
                let rows: Vec<Row> = (0..nrows)
                    .map(|_| {
                        let ts = if extreme_ts {
                            [i64::MAX - 2 * HOUR, i64::MAX - 2 * HOUR + 5, i64::MAX - 3 * HOUR, i64::MAX - 5, i64::MAX][sim::w(5) as usize]
                        } else {
                            now - (sim::w(3) as i64) * HOUR + sim::w(1000) as i64 * 1_000_003 - [0, 0, 0, HOUR * 24 * 3][sim::w(4) as usize]
                        };
                        gen.row(ts, extreme_vals)
                    })
                    .collect();
                let pause = [0u64, 0, 0, 100, 300, 1200][sim::w(6) as usize];
                let cancel = if with_cancel && sim::w(5) == 4 { Some(sim::w(10)) } else { None };
                ops.push((variant, rows, pause, cancel));
            }
            plans.push(ops);
        }
        let accepted: Arc<Mutex<Vec<String>>> = Arc::new(Mutex::new(Vec::new()));
        let rejected: Arc<Mutex<Vec<String>>> = Arc::new(Mutex::new(Vec::new()));
        // rows of requests whose future was dropped (client went away): they may or may not have been accepted
        let maybe: Arc<Mutex<Vec<String>>> = Arc::new(Mutex::new(Vec::new()));
        let mut hs = Vec::new();
        for (wi, ops) in plans.into_iter().enumerate() {
            let ing = ing.clone();
            let accepted = accepted.clone();
            let rejected = rejected.clone();
            let maybe = maybe.clone();
            hs.push(tokio::spawn(async move {
                for (variant, rows, pause, cancel) in ops {
                    sim::yield_point(0, &format!("writer{wi} before write")).await;
                    let b = batch(variant, &rows);
                    let rs = row_strings(&b);
                    sim::log(format!("WRITE w{wi} variant={variant} rows={} ids={:?}", rows.len(), rows.iter().map(|r| r.id).take(5).collect::<Vec<_>>()));
                    // the request runs as its own task, through the service's own ingest handlers (Arrow Flight
                    // do_put / OTLP receiver) or directly; a client disconnect drops a handler's future
                    let ing2 = ing.clone();
                    let via = if cancel.is_some() { 1 + (wi as u32 + variant) % 2 } else { (wi as u32 + variant) % 3 };
                    let req = tokio::spawn(async move {
                        match via {
                            1 => {
                                let svc = cardinalsin::api::ingest::flight_ingest::FlightIngestService::new(ing2);
                                let fd = cardinalsin::api::ingest::flight_ingest::batch_to_flight_data(&b)?;
                                svc.process_stream(fd.into_iter()).await.map(|_| ())
                            }
                            2 => cardinalsin::api::ingest::otlp::OtlpReceiver::new(ing2).ingest(b).await,
                            _ => ing2.write(b).await,
                        }
                    });
                    if let Some(k) = cancel {
                        let ab = req.abort_handle();
                        tokio::spawn(async move {
                            for _ in 0..k {
                                sim::yield_point(0, "client about to disconnect").await;
                            }
                            if !ab.is_finished() {
                                sim::log(format!("CANCEL request of w{wi}: client disconnected, handler future dropped"));
                                sim::fault_fired("request_handler_dropped");
                                ab.abort();
                            }
                        });
                    }
                    let res = match req.await {
                        Ok(r) => r,
                        Err(e) if e.is_cancelled() => {
                            maybe.lock().unwrap().extend(rs);
                            continue;
                        }
                        Err(_) => {
                            sim::violation("C06/unexpected-error", "write() panicked".to_string());
                            continue;
                        }
                    };
                    match res {
                        Ok(()) => accepted.lock().unwrap().extend(rs),
                        Err(cardinalsin::Error::BufferFull) => {
                            sim::probe("buffer-full");
                            rejected.lock().unwrap().extend(rs);
                        }
                        Err(cardinalsin::Error::TooManyRetries) | Err(cardinalsin::Error::Conflict) => {
                            // the flush that had to precede this write (schema change) lost the catalog's compare-and-swap
                            // five times in a row against the other writers' flushes: the write is refused, which the
                            // statement permits (its rows must then not be stored - checked below)
                            sim::probe("write-refused-under-catalog-contention");
                            rejected.lock().unwrap().extend(rs);
                        }
                        Err(e) => {
                            sim::violation("C06/unexpected-error", format!("write failed in a fault-free run: {e}"));
                            rejected.lock().unwrap().extend(rs);
                        }
                    }
                    if pause > 0 {
                        tokio::time::sleep(Duration::from_millis(pause)).await;
                    }
                }
            }));
        }
        for h in hs {
            let _ = h.await;
        }
        // a write whose client went away may still be running in the server (that is the point of detaching it);
        // the verdict is taken at quiescence: no time passes while a request is parked, then 30 s go by
        // (runs without disconnects keep the sharper ending: shutdown is requested at a seeded point right after
        // the last write returned - possibly while a timer flush is parked at the store - and must still flush everything)
        if with_cancel {
            sim::set_cfg(|c| c.adv_pct = 0);
            tokio::time::sleep(Duration::from_secs(30)).await;
        } else {
            for _ in 0..sim::w(6) {
                sim::yield_point(0, "before shutdown").await;
            }
            sim::probe("shutdown-requested-right-after-the-last-write");
        }
        tok.cancel();
        let _ = timer.await;
        tokio::time::sleep(Duration::from_secs(30)).await;
        collector.abort();
        sim::faults_off();

        // oracle
        let fresh: Arc<dyn MetadataClient> = if local_meta { meta.clone() } else { Arc::new(raw_client(&inner)) };
        let chunks = match fresh.list_chunks().await {
            Ok(c) => c,
            Err(e) => {
                sim::violation("C06/list-failed", e.to_string());
                return;
            }
        };
        let mut stored: Vec<String> = Vec::new();
        for c in &chunks {
            match read_chunk(&inner, &c.chunk_path).await {
                Ok(bs) => {
                    let mut n = 0u64;
                    let mut mn = i64::MAX;
                    let mut mx = i64::MIN;
                    for b in &bs {
                        stored.extend(row_strings(b));
                        n += b.num_rows() as u64;
                        for t in ts_of(b) {
                            mn = mn.min(t);
                            mx = mx.max(t);
                        }
                    }
                    if n != c.row_count || mn != c.min_timestamp || mx != c.max_timestamp {
                        sim::violation(
                            "C06/chunk-metadata-wrong",
                            format!("{}: catalog says rows={} min={} max={}, file holds rows={n} min={mn} max={mx}", c.chunk_path, c.row_count, c.min_timestamp, c.max_timestamp),
                        );
                    }
                }
                Err(e) => sim::violation("C06/chunk-unreadable", e),
            }
        }
        let want = multiset(accepted.lock().unwrap().clone());
        let got = multiset(stored.clone());
        // one cause gets one signature: if the stored rows equal the accepted rows except for the sign of
        // floating-point zeros, report exactly that (and compare the announcements modulo the same)
        let norm0 = |v: &String| v.replace("f:8000000000000000", "f:0000000000000000");
        let zero_sign_only = want != got && multiset(accepted.lock().unwrap().iter().map(norm0)) == multiset(stored.iter().map(norm0));
        if zero_sign_only {
            let (missing, extra) = diff_multiset(&want, &got);
            sim::violation(
                "C06/value-altered/sign-of-zero",
                format!("{} rows were stored with the sign of a floating-point zero changed: accepted e.g. {:?}, stored e.g. {:?}", missing.len(), missing.iter().take(1).collect::<Vec<_>>(), extra.iter().take(1).collect::<Vec<_>>()),
            );
        }
        let (missing, mut extra) = if zero_sign_only { (Vec::new(), Vec::new()) } else { diff_multiset(&want, &got) };
        // a dropped request's rows may be stored (at most once per dropped request) or not
        {
            let mut may = multiset(maybe.lock().unwrap().clone());
            extra.retain(|e| {
                let key = e.rsplit_once(" (x").map(|(k, _)| k.to_string()).unwrap_or_else(|| e.clone());
                let n: u32 = e.rsplit_once(" (x").and_then(|(_, n)| n.trim_end_matches(')').parse().ok()).unwrap_or(1);
                match may.get_mut(&key) {
                    Some(m) if *m >= n => {
                        *m -= n;
                        sim::probe("dropped-request-was-stored-anyway");
                        false
                    }
                    _ => true,
                }
            });
        }
        if !missing.is_empty() {
            sim::violation("C06/accepted-row-missing", format!("{} accepted rows are not in any registered chunk, e.g. {:?}", missing.len(), missing.iter().take(2).collect::<Vec<_>>()));
        }
        if !extra.is_empty() {
            let rej = multiset(rejected.lock().unwrap().clone());
            let from_rejected = extra.iter().any(|e| rej.keys().any(|k| e.starts_with(k.as_str())));
            sim::violation(
                if from_rejected { "C06/rejected-row-stored" } else { "C06/row-repeated-or-altered" },
                format!("{} stored rows were not accepted (or are repeated / altered), e.g. {:?}", extra.len(), extra.iter().take(2).collect::<Vec<_>>()),
            );
        }
        // announcements: each flushed chunk's rows exactly once to each subscriber
        let mut legacy: Vec<String> = Vec::new();
        loop {
            match legacy_sub.try_recv() {
                Ok(b) => legacy.extend(row_strings(&b)),
                Err(tokio::sync::broadcast::error::TryRecvError::Lagged(_)) => {
                    sim::probe("subscriber-lagged");
                    continue;
                }
                Err(_) => break,
            }
        }
        let canon = |v: Vec<String>| if zero_sign_only { multiset(v.iter().map(norm0)) } else { multiset(v) };
        let got = canon(stored);
        let lg = canon(legacy);
        let tp = canon(topic_rows.lock().unwrap().clone());
        if lg != got {
            let (m, e) = diff_multiset(&got, &lg);
            sim::violation("C06/broadcast-differs/legacy", format!("legacy subscriber: {} stored rows not announced, {} announced rows not stored/repeated", m.len(), e.len()));
        }
        if tp != got {
            let (m, e) = diff_multiset(&got, &tp);
            sim::violation("C06/broadcast-differs/topic", format!("topic subscriber: {} stored rows not announced, {} announced rows not stored/repeated", m.len(), e.len()));
        }
        sim::probe_n("chunks", chunks.len() as u64);
        sim::set_completed();
        sim::state_sig(sim::hash_str(&format!("{}:{}", chunks.len(), want.len())));
        if wal_on {
            disk::cleanup_scratch();
        }
    })
}

/// One flush group of more than 500 000 rows: thorough tier only (a run costs seconds, not milliseconds).
fn big_flush_phase(co: &mut crate::core::coord::Coord) {
    if co.tier == "quick" {
        return;
    }
    let specs: Vec<RunSpec> = (0..16u64).map(|i| co.spec(7_000_000 + i, "bigflush")).collect();
    co.run_batch(specs, "flush-of-more-than-500000-rows");
}
