//! C10 — concurrent queries do not affect each other's results.

use super::common::*;
use super::ingest::*;
use super::sql::*;
use crate::core::coord::PropDef;
use crate::core::run::{RunSpec, ScenFut};
use crate::core::sim;
use crate::core::store::SimStore;
use cardinalsin::ingester::{ChunkMetadata, ParquetWriter};
use cardinalsin::metadata::{LocalMetadataClient, MetadataClient, ObjectStoreMetadataClient, ObjectStoreMetadataConfig};
use cardinalsin::query::{QueryConfig, QueryNode};
use cardinalsin::StorageConfig;
use object_store::memory::InMemory;
use object_store::path::Path;
use object_store::{ObjectStore, PutPayload};
use std::sync::Arc;

pub static DEF: PropDef = PropDef {
    id: "C10",
    level: "exploration",
    engine: "query",
    rule: "one run = one real QueryNode over 3..6 chunks in distinct eras (so that different time windows select different chunk sets) and 2..4 concurrent query tasks (projections, aggregates, GROUP BY; windows covering one era, several eras, or none), each task issuing 1..3 queries (half of them with a label predicate; label values that differ only in letter case or white space exist, and a third of such statements are the twin of another one that differs only inside the literal; tasks query on behalf of two tenants); scheduling points: every object-store request of the node (catalog and chunk reads) and the pause point between per-query table registration and statement planning; each concurrent answer must equal the same SQL evaluated on a MemTable of all rows; distinct = distinct grant sequence; non-trivial = completed AND two queries with different chunk sets were in flight together",
    quick_runs: 1500,
    thorough_runs: 15_000,
    run_cap_ms: 120_000,
    scen,
    extra_phase: None,
    real: &["QueryNode::query / QueryEngine::with_metrics_table (per-query registration of the logical metrics table)", "DataFusion planning + execution", "CachedObjectStore / TieredCache"],
    stub: &["S3 = InMemory behind SimStore", "multi-thread runtime replaced by seeded interleaving at await points (store requests + one named pause point)"],
    assumptions: &["the logical race (re-binding between another query's binding and its planning) is reproduced through the pause point; hardware-level races inside DataFusion are out of reach", "single-partition plans"],
};

/// The same statement with the string literal replaced by its look-alike.
fn twin_of(q: &str) -> String {
    for (a, b) in [("'a'", "'A'"), ("'cpu'", "'CPU'"), ("'x y'", "'x  y'")] {
        if q.contains(a) {
            return q.replace(a, b);
        }
        if q.contains(b) {
            return q.replace(b, a);
        }
    }
    q.to_string()
}

fn scen(_spec: RunSpec) -> ScenFut {
    Box::pin(async move {
        let inner = Arc::new(InMemory::new());
        let store: Arc<dyn ObjectStore> = SimStore::new(inner.clone(), 0);
        let use_local = sim::w_bool(50);
        let meta: Arc<dyn MetadataClient> = if use_local {
            Arc::new(LocalMetadataClient::new())
        } else {
            Arc::new(ObjectStoreMetadataClient::new(store.clone(), ObjectStoreMetadataConfig::default()))
        };
        sim::set_cfg(|c| {
            c.adv_pct = 0;
            c.enabled = false;
            c.max_grants = 200_000;
        });
        // every statement planning is a scheduling point too (on the service's multi-threaded runtime another
        // request can re-bind the table at any instruction before the planner resolves the name)
        sim::enable_pause_site("query.before_plan");
        let now = sim::wall_ns();
        let n_chunks = sim::w_range(3, 6) as i64;
        let pw = ParquetWriter::new();
        let mut gen = RowGen::new();
        // label values that differ only in letter case or in the amount of white space are different series
        gen.metrics = vec!["cpu".into(), "CPU".into(), "mem".into()];
        gen.hosts = vec![None, Some("a".into()), Some("A".into()), Some("x y".into()), Some("x  y".into())];
        let mut all_rows: Vec<Row> = Vec::new();
        let mut eras: Vec<i64> = Vec::new();
        for c in 0..n_chunks {
            let era = now - (c + 1) * 5 * HOUR;
            eras.push(era);
            let rows: Vec<Row> = (0..sim::w_range(2, 8)).map(|i| gen.row(era + i as i64 * SEC, false)).collect();
            let bytes = pw.write_batch(&batch(1, &rows)).unwrap();
            let path = format!("default/data/c10/chunk_{c}.parquet");
            inner.put(&Path::from(path.clone()), PutPayload::from(bytes.clone())).await.unwrap();
            meta.register_chunk(&path, &ChunkMetadata { path: path.clone(), min_timestamp: rows[0].ts, max_timestamp: rows.last().unwrap().ts, row_count: rows.len() as u64, size_bytes: bytes.len() as u64 })
                .await
                .unwrap();
            all_rows.extend(rows);
        }
        let all = batch(1, &all_rows);
        let mut qc = QueryConfig::default();
        qc.l2_cache_dir = None;
        qc.l1_cache_size = [600usize, 64 << 20][sim::w(2) as usize];
        let live = cardinalsin::ingester::BroadcastChannel::new(16);
        let qn = match QueryNode::new(qc, store.clone(), meta.clone(), StorageConfig::default()).await {
            Ok(mut q) => {
                // streaming subscriptions run their historical phase through the same engine
                q.connect_broadcast(live.subscribe());
                Arc::new(q)
            }
            Err(e) => {
                sim::with(|st| st.abort = Some(format!("query node: {e}")));
                return;
            }
        };
        // bind the table to real chunks once (see C04 about fresh nodes)
        let _ = qn.query(&format!("SELECT count(*) AS c FROM metrics WHERE timestamp >= {} AND timestamp <= {}", now - 100 * HOUR, now)).await;
        sim::set_cfg(|c| c.enabled = true);
        let n_tasks = sim::w_range(2, 4);
        let mut plans: Vec<Vec<String>> = Vec::new();
        let mut windows_used: std::collections::BTreeSet<(i64, i64)> = Default::default();
        let mut twins: Vec<String> = Vec::new();
        for _ in 0..n_tasks {
            let k = sim::w_range(1, 3);
            let mut qs = Vec::new();
            for _ in 0..k {
                let a = sim::w(n_chunks as u32) as usize;
                let span = sim::w(3) as usize;
                let b = (a + span).min(n_chunks as usize - 1);
                // eras are descending in time: window covers chunks a..=b
                let (lo, hi) = if sim::w(9) == 8 { (now + HOUR, now + 2 * HOUR) } else { (eras[b] - 10, eras[a] + 10 * SEC) };
                windows_used.insert((lo, hi));
                let sel = match sim::w(4) {
                    0 => "id".to_string(),
                    1 => "count(*) AS c, sum(value_i64) AS s".to_string(),
                    2 => "metric_name, count(*) AS c".to_string(),
                    _ => "id, host, value_i64".to_string(),
                };
                let tail = if sel.starts_with("metric_name") { " GROUP BY metric_name" } else { "" };
                let prefix = if sim::w(4) == 3 { "STREAM " } else { "" };
                // half of the statements also have a label predicate; a third of those are the twin of an earlier
                // statement (of any task) that differs from it only inside the string literal - in letter case or
                // in the amount of white space: another predicate over another series, whatever a text-based
                // notion of "the same statement" may think
                let label = match sim::w(2) {
                    0 => String::new(),
                    _ => format!(
                        " AND {}",
                        ["host = 'a'", "host = 'A'", "metric_name = 'cpu'", "metric_name = 'CPU'", "host = 'x y'", "host = 'x  y'", "metric_name <> 'cpu'", "metric_name <> 'CPU'"][sim::w(8) as usize]
                    ),
                };
                let mut q = format!("{prefix}SELECT {sel} FROM metrics WHERE timestamp >= {lo} AND timestamp <= {hi}{label}{tail}");
                if !twins.is_empty() && sim::w(3) == 2 {
                    let t: &String = &twins[sim::w(twins.len() as u32) as usize];
                    q = twin_of(t);
                    sim::probe("statement-differing-from-another-only-inside-a-literal");
                }
                if q.contains("'") {
                    twins.push(q.clone());
                }
                qs.push(q);
            }
            plans.push(qs);
        }
        sim::log(format!("CONFIG catalog={} chunks={n_chunks} tasks={n_tasks} distinct_windows={}", if use_local { "local" } else { "object-store" }, windows_used.len()));
        // a third of the runs also have clients that go away: their queries (other windows than the observed ones as
        // often as not) are dropped at a seeded await point, e.g. between binding the table and planning
        let doomed: Vec<(String, u32)> = if sim::w(3) == 2 {
            let all_q: Vec<String> = plans.iter().flatten().filter(|q| !q.starts_with("STREAM ")).cloned().collect();
            (0..sim::w_range(1, 3)).filter_map(|_| if all_q.is_empty() { None } else { Some((all_q[sim::w(all_q.len() as u32) as usize].clone(), sim::w(8))) }).collect()
        } else {
            Vec::new()
        };
        for (sql, k) in doomed {
            let qn = qn.clone();
            let h = tokio::spawn(async move {
                sim::yield_point(0, "doomed client before query").await;
                let _ = qn.query(&sql).await;
            });
            let ab = h.abort_handle();
            tokio::spawn(async move {
                for _ in 0..k {
                    sim::yield_point(0, "client about to go away").await;
                }
                if !ab.is_finished() {
                    sim::fault_fired("query_request_dropped");
                    ab.abort();
                }
            });
        }
        let inflight = Arc::new(std::sync::atomic::AtomicUsize::new(0));
        let overlapped = Arc::new(std::sync::atomic::AtomicBool::new(false));
        let mut hs = Vec::new();
        for (ti, qs) in plans.into_iter().enumerate() {
            let qn = qn.clone();
            let inflight = inflight.clone();
            let overlapped = overlapped.clone();
            hs.push(tokio::spawn(async move {
                let mut out = Vec::new();
                for sql in qs {
                    sim::yield_point(0, &format!("task{ti} before query")).await;
                    sim::log(format!("QUERY task{ti}: {sql}"));
                    if inflight.fetch_add(1, std::sync::atomic::Ordering::SeqCst) > 0 {
                        overlapped.store(true, std::sync::atomic::Ordering::SeqCst);
                    }
                    let streaming = sql.starts_with("STREAM ");
                    let r = if streaming {
                        // historical phase of a streaming subscription (no live data is published in this scenario)
                        let sql = sql.trim_start_matches("STREAM ").to_string();
                        match qn.query_stream(&sql).await {
                            Ok(mut rx) => {
                                let mut bs = Vec::new();
                                while let Ok(Some(b)) = tokio::time::timeout(std::time::Duration::from_millis(5), rx.recv()).await {
                                    match b {
                                        Ok(b) => bs.push(b),
                                        Err(e) => return (ti, vec![(sql, Err(e.to_string()))]),
                                    }
                                }
                                Ok(bs)
                            }
                            Err(e) => Err(e),
                        }
                    } else {
                        qn.query_for_tenant(&sql, ["default", "default", "tenant-b"][ti % 3]).await
                    };
                    inflight.fetch_sub(1, std::sync::atomic::Ordering::SeqCst);
                    let sql = sql.trim_start_matches("STREAM ").to_string();
                    out.push((sql, r.map_err(|e| e.to_string())));
                }
                (ti, out)
            }));
        }
        let mut results = Vec::new();
        for h in hs {
            if let Ok(r) = h.await {
                results.push(r);
            }
        }
        sim::set_cfg(|c| c.enabled = false);
        for (ti, out) in results {
            for (sql, r) in out {
                let want = match reference(&sql, &all).await {
                    Ok(w) => result_multiset(&w),
                    Err(e) => {
                        sim::log(format!("reference failed: {e}"));
                        continue;
                    }
                };
                match r {
                    Ok(g) => {
                        let got = result_multiset(&g);
                        if got != want {
                            sim::violation(
                                "C10/answer-differs-under-concurrency",
                                format!("task{ti}: {sql} :: {} (the same statement run alone gives the expected answer)", describe_diff(&want, &got)),
                            );
                        }
                    }
                    Err(e) => sim::violation("C10/query-error-under-concurrency", format!("task{ti}: {sql} :: {e}")),
                }
            }
        }
        sim::set_completed();
        sim::set_extra("strict_nontrivial", serde_json::json!(overlapped.load(std::sync::atomic::Ordering::SeqCst) && windows_used.len() > 1));
    })
}
