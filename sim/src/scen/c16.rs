//! C16 — the tiered cache is transparent.

use crate::core::coord::{Coord, PropDef};
use crate::core::run::{RunSpec, ScenFut};
use crate::core::sim;
use crate::core::store::SimStore;
use bytes::Bytes;
use cardinalsin::query::{CacheConfig, CachedObjectStore, TieredCache};
use object_store::memory::InMemory;
use object_store::path::Path;
use object_store::{GetOptions, GetRange, ObjectStore, PutPayload};
use std::collections::BTreeMap;
use std::sync::{Arc, Mutex};

pub static DEF: PropDef = PropDef {
    id: "C16",
    level: "exploration",
    engine: "query",
    rule: "one run = a real CachedObjectStore + TieredCache (L1 from 300 bytes, i.e. evict on every insert, to 8 MB; no disk tier in the seeded phase, foyer disk tier of 64 KB..1 MB on /dev/shm in the thorough-only 'l2' phase) over the simulated store, a growing set of 80..200 write-once objects of 0 bytes..6 KB (one run in ten: 20..50 objects, one or two of them 2..5 MiB) written in 3..5 waves (a third of the runs with writes that fail before / after taking effect, create-only uploads, a create-only re-upload of an existing name that the store refuses, and a failed write of a never-written name; the model is what the backing store holds after each attempt), and 2..4 concurrent reader tasks issuing 30..80 reads each (whole GET, get_range, get_ranges with nested / touching / out-of-order ranges, GET with range option, If-Match / If-None-Match with right and wrong ETags, If-Modified-Since / If-Unmodified-Since with satisfied and unsatisfied dates, never-written keys incl. keys that share a file name or prefix with written ones); the inner store's requests are seeded scheduling points (concurrent misses on the same and on different keys), half of the runs inject request failures on the miss path, a third drop one read in eight at a seeded point (reader went away: a dropped leader of a coalesced miss must not poison what the others get); whenever a read returns bytes they must equal the backing store's object (the requested range of it), a missing key must fail, and in a run without injected request failures a read of an existing object with no (or a satisfied) precondition must succeed; distinct = distinct grant sequence; non-trivial = completed AND an L1 eviction happened (misses on re-read keys)",
    quick_runs: 5000,
    thorough_runs: 30_000,
    run_cap_ms: 60_000,
    scen,
    extra_phase: Some(l2_phase),
    real: &["query::CachedObjectStore", "query::TieredCache (moka L1; foyer L2 in the l2 phase)"],
    stub: &["backing store = InMemory behind SimStore"],
    assumptions: &["write-once objects; no deletes through other handles (the statement is about a growing key set)", "with the foyer disk tier the schedule of reader tasks is still the simulator's, but which tier serves a read depends on foyer's own threads: the verdict (bytes equal) does not, exact log-level replay is guaranteed only without L2"],
};

/// The model is the backing store itself: after every write attempt, whatever its reported outcome, look at what
/// the store now holds under that name (raw handle, no gate, no fault).
async fn refresh_model(inner: &Arc<InMemory>, model: &Arc<Mutex<BTreeMap<String, (Bytes, Option<String>)>>>, name: &str) {
    match inner.get(&Path::from(name)).await {
        Ok(g) => {
            let etag = g.meta.e_tag.clone();
            if let Ok(b) = g.bytes().await {
                model.lock().unwrap().insert(name.to_string(), (b, etag));
            }
        }
        Err(_) => {
            model.lock().unwrap().remove(name);
        }
    }
}

fn content(k: usize, len: usize) -> Vec<u8> {
    (0..len).map(|i| ((k * 131 + i * 7 + (i >> 8)) % 251) as u8).collect()
}

fn key_name(k: usize) -> String {
    // several directories share file names, so a cache keyed by file name only would mix objects up
    format!("default/data/dir{}/chunk_{}.parquet", k % 5, k / 5)
}

fn scen(spec: RunSpec) -> ScenFut {
    Box::pin(async move {
        let l2 = spec.variant == "l2";
        let inner = Arc::new(InMemory::new());
        let store: Arc<dyn ObjectStore> = SimStore::new(inner.clone(), 0);
        // one run in ten also holds one or two objects of several MiB (a store handle may fetch those differently)
        let big_run = sim::w(10) == 9;
        let l1 = if big_run { [20_000usize, 8 << 20, 64 << 20][sim::w(3) as usize] } else { [300usize, 2_000, 20_000, 8 << 20][sim::w(4) as usize] };
        let l2_dir = if l2 { Some(crate::core::disk::scratch_dir("l2")) } else { None };
        let l2_size = [64usize << 10, 256 << 10, 1 << 20][sim::w(3) as usize];
        let cache = match TieredCache::new(CacheConfig { l1_size: l1, l2_size, l2_dir: l2_dir.clone() }).await {
            Ok(c) => Arc::new(c),
            Err(e) => {
                sim::with(|st| st.abort = Some(format!("cache: {e}")));
                return;
            }
        };
        let cs = Arc::new(CachedObjectStore::new(store.clone(), cache.clone()));
        let faults = sim::w_bool(50);
        // a third of the runs have readers that go away mid-request (the read's future is dropped at a seeded point)
        let cancels = sim::w(3) == 2;
        let fb = 2 + sim::w(6);
        sim::set_cfg(|c| {
            c.adv_pct = 0;
            c.max_grants = 100_000;
            if faults {
                c.fail_before_pm = 25;
                c.fail_after_pm = 10;
                c.body_break_pm = 20;
                c.delay_pm = 15;
                c.delay_ms = vec![1, 50];
                c.fault_budget = fb;
            }
        });
        // a third of the runs have writes that fail or are refused: a failed request (before or after it took effect),
        // and create-only uploads of a name that already exists (a writer retrying an upload that did succeed)
        let write_faults = sim::w(3) == 2;
        let total = if big_run { sim::w_range(20, 50) as usize } else { sim::w_range(80, 200) as usize };
        let waves = sim::w_range(3, 5) as usize;
        let model: Arc<Mutex<BTreeMap<String, (Bytes, Option<String>)>>> = Arc::new(Mutex::new(BTreeMap::new()));
        sim::log(format!("CONFIG l1={l1} l2={:?} keys={total} waves={waves} faults={faults}", l2_dir.as_ref().map(|_| l2_size)));
        let readers = sim::w_range(2, 4);
        let mut written = 0usize;
        let mismatches = Arc::new(Mutex::new(0u32));
        for wv in 0..waves {
            // write a wave of new objects (through the caching store, as the engine's store handle would)
            let upto = total * (wv + 1) / waves;
            sim::set_cfg(|c| c.enabled = false);
            for k in written..upto {
                let mut len = [1usize, 17, 200, 900, 3000, 6000, 0][sim::w(7) as usize]; // (an empty object is an object)
                if big_run && (k == written || (k == written + 1 && sim::w_bool(50))) && wv < 2 {
                    len = [(2 << 20) + (1 << 19), (3 << 20) + 17, (5 << 20) + 1, 2 << 20][sim::w(4) as usize];
                    sim::probe("object-of-several-MiB");
                }
                let data = Bytes::from(content(k, len));
                let name = key_name(k);
                // the write itself may fail: before it took effect (nothing stored) or after (stored, error reported)
                let faulty = write_faults && sim::w(6) == 5;
                let saved = sim::with(|st| st.cfg.clone());
                if faulty {
                    sim::set_cfg(|c| {
                        c.enabled = true;
                        c.fail_before_pm = 500;
                        c.fail_after_pm = 500;
                        c.delay_pm = 0;
                        c.body_break_pm = 0;
                        c.fault_budget = 1;
                    });
                }
                let create_only = sim::w(4) == 3;
                let r = if create_only {
                    cs.put_opts(&Path::from(name.clone()), PutPayload::from(data.clone()), object_store::PutOptions { mode: object_store::PutMode::Create, ..Default::default() }).await
                } else {
                    cs.put(&Path::from(name.clone()), PutPayload::from(data.clone())).await
                };
                if faulty {
                    sim::set_cfg(|c| *c = saved);
                }
                if let Err(e) = &r {
                    sim::probe("write-failed");
                    sim::log(format!("put of {name} failed: {e}"));
                }
                refresh_model(&inner, &model, &name).await;
            }
            if write_faults && written > 0 {
                // a writer retrying an upload that did succeed: create-only, so the store refuses it and keeps the
                // first upload; what it sent the second time (other bytes here, to make the difference visible) is
                // not what the backing store holds
                for _ in 0..sim::w_range(1, 4) {
                    let k = sim::w(written as u32) as usize;
                    let name = key_name(k);
                    let other = Bytes::from(content(k + 100_000, [1usize, 200, 3000][sim::w(3) as usize]));
                    let r = cs.put_opts(&Path::from(name.clone()), PutPayload::from(other), object_store::PutOptions { mode: object_store::PutMode::Create, ..Default::default() }).await;
                    if r.is_err() {
                        sim::probe("create-only-upload-of-an-existing-name-refused");
                    }
                    refresh_model(&inner, &model, &name).await;
                }
                // and a failed write of a name that was never written
                let saved = sim::with(|st| st.cfg.clone());
                sim::set_cfg(|c| {
                    c.enabled = true;
                    c.fail_before_pm = 1000;
                    c.fail_after_pm = 0;
                    c.delay_pm = 0;
                    c.body_break_pm = 0;
                    c.fault_budget = 1;
                });
                let name = "default/data/dir9/chunk_0.parquet".to_string();
                let r = cs.put(&Path::from(name.clone()), PutPayload::from(Bytes::from_static(b"never stored"))).await;
                sim::set_cfg(|c| *c = saved);
                if r.is_err() {
                    sim::probe("write-of-a-new-name-failed");
                }
                refresh_model(&inner, &model, &name).await;
            }
            written = upto;
            sim::set_cfg(|c| c.enabled = true);
            // concurrent readers
            let mut hs = Vec::new();
            for r in 0..readers {
                let nreads = sim::w_range(30, 80);
                let plan: Vec<(u32, usize, usize, usize, Option<u32>)> = (0..nreads)
                    .map(|_| (sim::w(13), sim::w(written as u32 + 6) as usize, sim::w(7000) as usize, sim::w(7000) as usize, if cancels && sim::w(8) == 7 { Some(sim::w(6)) } else { None }))
                    .collect();
                let cs = cs.clone();
                let model = model.clone();
                let mismatches = mismatches.clone();
                hs.push(tokio::spawn(async move {
                    for (kind, k, a, b, cancel) in plan {
                        let name = if k >= written {
                            // never-written keys, some sharing a file name / prefix with written ones
                            match k - written {
                                0 => "default/data/dir9/chunk_0.parquet".to_string(),
                                1 => "default/data/dir0/chunk_0.parque".to_string(),
                                2 => "other/data/dir0/chunk_0.parquet".to_string(),
                                3 => format!("default/data/dir1/chunk_{}.parquet", 100_000),
                                4 => "chunk_0.parquet".to_string(),
                                _ => "default/data/dir0/chunk_0.parquet.tmp".to_string(),
                            }
                        } else {
                            key_name(k)
                        };
                        let want = model.lock().unwrap().get(&name).cloned();
                        let p = Path::from(name.clone());
                        let cs2 = cs.clone();
                        let want2 = want.clone();
                        let p2 = p.clone();
                        // every read is a request of its own; a reader that goes away drops it at a seeded point
                        let req = tokio::spawn(async move {
                            let (cs, want, p) = (cs2, want2, p2);
                            let mut expect_override: Option<Vec<u8>> = None;
                            let r0: Option<(String, Result<Bytes, String>)> = Some(match kind {
                            0..=4 => ("get".into(), match cs.get(&p).await {
                                Ok(g) => g.bytes().await.map_err(|e| e.to_string()),
                                Err(e) => Err(e.to_string()),
                            }),
                            5 | 6 => {
                                let len = want.as_ref().map(|w| w.0.len()).unwrap_or(10);
                                let (s, e) = (a % (len + 1), b % (len + 1));
                                let (s, e) = (s.min(e), s.max(e));
                                if s == e {
                                    return None;
                                }
                                if kind == 5 {
                                    (format!("get_range {s}..{e}"), cs.get_range(&p, s..e).await.map_err(|e| e.to_string()))
                                } else {
                                    let o = GetOptions { range: Some(GetRange::Bounded(s..e)), ..Default::default() };
                                    (format!("get_opts range {s}..{e}"), match cs.get_opts(&p, o).await {
                                        Ok(g) => g.bytes().await.map_err(|e| e.to_string()),
                                        Err(e) => Err(e.to_string()),
                                    })
                                }
                            }
                            10 => {
                                // several ranges in one call: nested, adjacent and out-of-order ones included
                                let Some((data, _)) = want.as_ref() else { return None };
                                let len = data.len();
                                let (s, e) = (a % (len + 1), b % (len + 1));
                                let (s, e) = (s.min(e), s.max(e));
                                let mut ranges: Vec<std::ops::Range<usize>> = Vec::new();
                                if e > s {
                                    ranges.push(s..e);
                                    let (ns, ne) = (s + (e - s) / 4, s + (e - s) / 2);
                                    if ne > ns {
                                        ranges.push(ns..ne); // lies inside the first
                                    }
                                    if e < len {
                                        ranges.push(e..len.min(e + 7)); // touches the first
                                    }
                                }
                                if s > 0 {
                                    ranges.push(0..s.min(9)); // before the first (out of order)
                                }
                                if ranges.is_empty() {
                                    return None;
                                }
                                if (a + b) % 2 == 1 {
                                    ranges.reverse();
                                }
                                expect_override = Some(ranges.iter().flat_map(|r| data[r.clone()].to_vec()).collect());
                                (format!("get_ranges {:?}", ranges), cs.get_ranges(&p, &ranges).await.map(|v| Bytes::from(v.iter().flat_map(|b| b.to_vec()).collect::<Vec<u8>>())).map_err(|e| e.to_string()))
                            }
                            7 => {
                                let etag = want.as_ref().and_then(|w| w.1.clone());
                                let o = GetOptions { if_match: etag, ..Default::default() };
                                ("get_opts if_match(right)".into(), match cs.get_opts(&p, o).await {
                                    Ok(g) => g.bytes().await.map_err(|e| e.to_string()),
                                    Err(e) => Err(e.to_string()),
                                })
                            }
                            11 | 12 => {
                                // date preconditions: the caching store must answer as the backing store would
                                let far = chrono::Duration::days(if a % 2 == 0 { 3650 } else { -3650 });
                                let t = chrono::DateTime::<chrono::Utc>::from_timestamp(1_700_000_000, 0).unwrap() + far;
                                let o = if kind == 11 { GetOptions { if_modified_since: Some(t), ..Default::default() } } else { GetOptions { if_unmodified_since: Some(t), ..Default::default() } };
                                let label = format!("get_opts {}({})", if kind == 11 { "if_modified_since" } else { "if_unmodified_since" }, if a % 2 == 0 { "future" } else { "past" });
                                // modified-since a future date and unmodified-since a past date are not satisfied
                                let must_fail = (kind == 11) == (a % 2 == 0);
                                (if must_fail { format!("{label} [precondition not satisfied]") } else { label }, match cs.get_opts(&p, o).await {
                                    Ok(g) => g.bytes().await.map_err(|e| e.to_string()),
                                    Err(e) => Err(e.to_string()),
                                })
                            }
                            8 => {
                                let o = GetOptions { if_match: Some("no-such-etag".into()), ..Default::default() };
                                ("get_opts if_match(wrong)".into(), match cs.get_opts(&p, o).await {
                                    Ok(g) => g.bytes().await.map_err(|e| e.to_string()),
                                    Err(e) => Err(e.to_string()),
                                })
                            }
                            _ => {
                                let o = GetOptions { if_none_match: Some("no-such-etag".into()), ..Default::default() };
                                ("get_opts if_none_match(other)".into(), match cs.get_opts(&p, o).await {
                                    Ok(g) => g.bytes().await.map_err(|e| e.to_string()),
                                    Err(e) => Err(e.to_string()),
                                })
                            }
                        });
                            r0.map(|(w, g)| (w, g, expect_override))
                        });
                        if let Some(kc) = cancel {
                            let ab = req.abort_handle();
                            tokio::spawn(async move {
                                for _ in 0..kc {
                                    sim::yield_point(0, "reader about to go away").await;
                                }
                                if !ab.is_finished() {
                                    sim::fault_fired("read_request_dropped");
                                    ab.abort();
                                }
                            });
                        }
                        // nothing in a read sleeps: 60 virtual seconds are far beyond any legitimate duration
                        let (what, got, expect_override) = match tokio::time::timeout(std::time::Duration::from_secs(60), req).await {
                            Ok(Ok(Some(x))) => x,
                            Ok(Ok(None)) => continue,
                            Ok(Err(_)) => {
                                sim::probe("read-dropped-midway");
                                continue;
                            }
                            Err(_) => {
                                sim::violation("C16/read-never-returns", format!("reader {r}: a read of {name} did not return within 60 virtual seconds (nothing was parked at the store)"));
                                return;
                            }
                        };
                        // oracle
                        match (&want, &got) {
                            (None, Ok(b)) => {
                                *mismatches.lock().unwrap() += 1;
                                sim::violation("C16/missing-key-answered", format!("reader {r}: {what} of never-written {name} returned {} bytes", b.len()));
                            }
                            (None, Err(_)) => sim::probe("missing-key-error"),
                            (Some((data, _)), Ok(b)) => {
                                let expect: &[u8] = if let Some(o) = &expect_override {
                                    &o[..]
                                } else if what.contains("range") {
                                    let rng: Vec<usize> = what.rsplit(' ').next().unwrap().split("..").map(|x| x.parse().unwrap()).collect();
                                    &data[rng[0]..rng[1]]
                                } else {
                                    &data[..]
                                };
                                if b.as_ref() != expect {
                                    *mismatches.lock().unwrap() += 1;
                                    let foreign = model.lock().unwrap().iter().find(|(_, v)| v.0.as_ref() == b.as_ref()).map(|(k, _)| k.clone());
                                    sim::violation(
                                        if foreign.is_some() { "C16/bytes-of-another-object" } else { "C16/bytes-differ" },
                                        format!("reader {r}: {what} of {name} returned {} bytes, backing store holds {} ({})", b.len(), expect.len(), foreign.map(|f| format!("these are the bytes of {f}")).unwrap_or_else(|| "content differs".into())),
                                    );
                                }
                                if what.contains("if_match(wrong)") {
                                    sim::violation("C16/precondition-ignored", format!("reader {r}: {what} of {name} succeeded although the ETag does not match"));
                                }
                                if what.contains("[precondition not satisfied]") {
                                    sim::violation("C16/precondition-ignored/date", format!("reader {r}: {what} of {name} returned the object; the backing store answers such a request with NotModified / Precondition"));
                                }
                            }
                            (Some(_), Err(e)) => {
                                // a read may fail (injected fault, failed precondition); it may never return wrong data
                                sim::probe("read-error");
                                // ... but in a run without injected request failures, a read of an object the backing store
                                // holds, with no precondition or a satisfied one, has no reason to fail
                                if !faults && !what.contains("if_match(wrong)") && !what.contains("[precondition not satisfied]") {
                                    sim::violation("C16/existing-object-unreadable", format!("reader {r}: {what} of {name} ({} bytes in the backing store) failed in a run without injected request failures: {e}", want.as_ref().map(|w| w.0.len()).unwrap_or(0)));
                                }
                            }
                        }
                    }
                }));
            }
            for h in hs {
                let _ = h.await;
            }
        }
        let st = cache.stats();
        sim::probe_n("l1-hits", st.l1_hits);
        sim::probe_n("l1-misses", st.l1_misses);
        sim::probe_n("l2-hits", st.l2_hits);
        let distinct_keys = model.lock().unwrap().len() as u64;
        // more L1 misses than distinct keys => something was evicted and fetched again
        let evicted = st.l1_misses > distinct_keys + 10;
        if evicted {
            sim::probe("l1-eviction-observed");
        }
        sim::set_completed();
        sim::set_extra("strict_nontrivial", serde_json::json!(evicted || st.l2_hits > 0));
        if l2_dir.is_some() {
            crate::core::disk::cleanup_scratch();
        }
    })
}

/// foyer disk tier configurations: thorough tier only (not part of the determinism sample).
fn l2_phase(co: &mut Coord) {
    if co.tier == "quick" {
        return;
    }
    let specs: Vec<RunSpec> = (0..400u64).map(|i| co.spec(5_000_000 + i, "l2")).collect();
    co.run_batch(specs, "l2-foyer-disk-tier");
}
