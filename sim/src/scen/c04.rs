//! C04 — query answers equal a full scan of everything ingested.

use super::common::*;
use super::ingest::*;
use super::sql::*;
use crate::core::coord::PropDef;
use crate::core::run::{RunSpec, ScenFut};
use crate::core::sim;
use crate::core::store::SimStore;
use arrow_array::RecordBatch;
use cardinalsin::adaptive_index::{AdaptiveIndexConfig, AdaptiveIndexController};
use cardinalsin::compactor::{Compactor, CompactorConfig};
use cardinalsin::ingester::{Ingester, IngesterConfig};
use cardinalsin::metadata::{LocalMetadataClient, MetadataClient, ObjectStoreMetadataClient, ObjectStoreMetadataConfig};
use cardinalsin::query::{QueryConfig, QueryNode};
use cardinalsin::schema::MetricSchema;
use cardinalsin::sharding::{HotShardConfig, ShardMonitor};
use cardinalsin::StorageConfig;
use object_store::memory::InMemory;
use object_store::ObjectStore;
use std::sync::Arc;
use std::time::Duration;

pub static DEF: PropDef = PropDef {
    id: "C04",
    level: "exploration",
    engine: "query",
    rule: "one run = a generated dataset (20..120 rows, 3 metrics, nullable host label (in a quarter of the Int64-timestamp runs some chunks lack the label column altogether), exact-in-f64 values, timestamps placed minutes / hours / days before and slightly after the virtual now, on hour-bucket edges +-1 ns, in one run of six also before the epoch) ingested through the real Ingester with a drawn flush threshold (so the same rows land in 1..k chunks in different orders), on either catalog backend, with either timestamp column type; 6..12 generated SELECTs whose WHERE confines the timestamp to a finite window by construction (comparisons in both operand orders against integer / TIMESTAMP-literal / now()-relative bounds, BETWEEN, =, AND/OR/NOT nests, unions of windows, label predicates, projections, count/sum/min/max/avg, GROUP BY, DISTINCT, HAVING, ORDER BY timestamp [DESC] [LIMIT n [OFFSET m]] and 'latest rows' ORDER BY timestamp DESC, id LIMIT n - compared as sequences), each run cold and warm, before and after a real compaction cycle, a third of the runs over a flaky store during the query phase (failed requests, response bodies breaking part-way: a query may fail then, a returned answer must still be exact), with a tiny or large L1 cache and adaptive indexing on or off; in 40 % of the runs time then passes (40 min / 2 h / 25 h), new rows arrive in a chunk of their own and the same statement texts are sent again (the meaning of now()-relative bounds moves with the clock); the answer must equal the same SQL on a MemTable of all ingested rows (multiset of canonically rendered rows); distinct = distinct (dataset, query text) hash; non-trivial = the reference answer is non-empty or the window straddles data",
    quick_runs: 600,
    thorough_runs: 10_000,
    run_cap_ms: 120_000,
    scen,
    extra_phase: None,
    real: &["Ingester -> ParquetWriter -> catalog", "Compactor::run_compaction_cycle", "QueryNode::query (extract_time_range, extract_column_predicates, get_chunks_with_predicates, per-query table registration, DataFusion execution through CachedObjectStore/TieredCache)", "AdaptiveIndexController (optional)"],
    stub: &["S3 = InMemory behind SimStore", "virtual clock (now() and the 'last hour' default read it)"],
    assumptions: &["queries run one at a time (concurrency is C10)", "single-partition plans (runs are pinned to one CPU)", "statement the reference session cannot plan is out of family and skipped", "homogeneous schema per dataset"],
};

fn scen(_spec: RunSpec) -> ScenFut {
    Box::pin(async move {
        let inner = Arc::new(InMemory::new());
        let store: Arc<dyn ObjectStore> = SimStore::new(inner.clone(), 0);
        let use_local = sim::w_bool(40);
        let meta: Arc<dyn MetadataClient> = if use_local {
            Arc::new(LocalMetadataClient::new())
        } else {
            Arc::new(ObjectStoreMetadataClient::new(store.clone(), ObjectStoreMetadataConfig::default()))
        };
        sim::set_cfg(|c| {
            c.adv_pct = 0;
            c.max_grants = 200_000;
            c.max_virtual_ns = 48 * 3600 * 1_000_000_000;
        });
        // the virtual "now" is well past the epoch so that "days ago" is representable
        let ts_type_int = sim::w_bool(50);
        let variant = if ts_type_int { 1 } else { 3 };
        let style = if ts_type_int { BoundStyle::Int } else { BoundStyle::Ts };
        let value_col = if ts_type_int { "value_i64" } else { "value_f64" };
        let now = sim::wall_ns();
        // dataset
        let mut icfg = IngesterConfig::default();
        icfg.wal.enabled = false;
        icfg.flush_row_count = [3usize, 5, 9, 20, 1000][sim::w(5) as usize];
        let ing = Ingester::new(icfg.clone(), store.clone(), meta.clone(), StorageConfig::default(), MetricSchema::default_metrics());
        let mut gen = RowGen::new();
        let eras: Vec<i64> = vec![
            now - 10 * 60 * SEC,
            now - 50 * 60 * SEC,
            bucket(now) - 1,
            bucket(now),
            now - 3 * HOUR,
            now - 26 * HOUR,
            now - 4 * 24 * HOUR,
            now + 5 * 60 * SEC,
        ];
        // one run in six also holds rows from before the epoch (negative timestamps, on and next to an hour edge)
        let pre_epoch = sim::w(6) == 5;
        let n_batches = sim::w_range(5, 20);
        let evolving = ts_type_int && sim::w(4) == 3;
        if evolving {
            sim::probe("label-column-missing-in-some-chunks");
        }
        let mut all_rows: Vec<Row> = Vec::new();
        let mut points: Vec<i64> = vec![now, now - HOUR, bucket(now), bucket(now) - HOUR];
        for bi in 0..n_batches {
            // the first batch always holds recent rows (see the priming query below)
            let era = if bi == 0 { eras[0] } else { eras[sim::w(eras.len() as u32) as usize] };
            let n = sim::w_range(1, 6);
            let rows: Vec<Row> = (0..n)
                .map(|_| {
                    let ts = era + [0i64, 1, -1, 7 * SEC, 90 * SEC, -45 * SEC][sim::w(6) as usize];
                    let mut r = gen.row(ts, false);
                    r.vi = Some(r.id % 11);
                    r.vf = Some((r.id % 9) as f64 * 0.25);
                    r
                })
                .collect();
            for r in &rows {
                points.push(r.ts);
            }
            all_rows.extend(rows.clone());
            // label sets vary between series: in a quarter of the Int64-timestamp runs some batches come without the host
            // label column at all (their rows read as host = NULL)
            // (the first batch always carries the label column: a column no ingested batch has is not part of the data)
            let this_variant = if evolving && bi > 0 && sim::w_bool(40) { 0 } else { variant };
            let rows: Vec<Row> = if this_variant == 0 { rows.into_iter().map(|mut r| { r.host = None; r }).collect() } else { rows };
            if this_variant == 0 {
                // (all_rows was extended with the original rows above: replace the tail by the host-less ones)
                let n = rows.len();
                let l = all_rows.len();
                all_rows.splice(l - n.., rows.iter().cloned());
            }
            if let Err(e) = ing.write(batch(this_variant, &rows)).await {
                sim::violation("C04/ingest-failed", e.to_string());
                return;
            }
        }
        // flush the rest
        let tok = ing.shutdown_token();
        tok.cancel();
        ing.run_flush_timer().await;
        if pre_epoch {
            // chunks of their own (a chunk reaching from 1969 to now would be indexed under ~470 000 hour buckets)
            let pw = cardinalsin::ingester::ParquetWriter::new();
            for (k, era) in [-(3 * HOUR) - 17 * 60 * SEC, -(3 * HOUR), -(2 * HOUR) - 1, -40 * 60 * SEC].into_iter().enumerate() {
                if sim::w_bool(30) {
                    continue;
                }
                let rows: Vec<Row> = (0..sim::w_range(1, 3))
                    .map(|_| {
                        let ts = era + [0i64, 1, -1, 7 * SEC][sim::w(4) as usize];
                        let mut r = gen.row(ts, false);
                        r.vi = Some(r.id % 11);
                        r.vf = Some((r.id % 9) as f64 * 0.25);
                        r
                    })
                    .collect();
                let bytes = pw.write_batch(&batch(variant, &rows)).unwrap();
                let path = format!("default/data/ancient/chunk_{k}.parquet");
                store.put(&object_store::path::Path::from(path.clone()), object_store::PutPayload::from(bytes.clone())).await.unwrap();
                let (mn, mx) = (rows.iter().map(|r| r.ts).min().unwrap(), rows.iter().map(|r| r.ts).max().unwrap());
                meta.register_chunk(&path, &cardinalsin::ingester::ChunkMetadata { path: path.clone(), min_timestamp: mn, max_timestamp: mx, row_count: rows.len() as u64, size_bytes: bytes.len() as u64 }).await.unwrap();
                for r in &rows {
                    points.push(r.ts);
                }
                all_rows.extend(rows);
            }
            sim::probe("rows-before-the-epoch");
        }
        let all = batch(variant, &all_rows);
        let n_chunks = meta.list_chunks().await.map(|c| c.len()).unwrap_or(0);
        // configuration "catalog carries statistics": truthful per-column min/max attached through the public
        // save_chunk_metadata (the shipped write path stores none); an unsound statistics prune then shows up
        // as a wrong answer
        let with_stats = !use_local && sim::w_bool(35);
        if with_stats {
            let oc = ObjectStoreMetadataClient::new(SimStore::new(inner.clone(), 7), ObjectStoreMetadataConfig::default());
            if let Ok(mut cm) = oc.load_chunk_metadata().await {
                for (path, e) in cm.iter_mut() {
                    if let Ok(bs) = read_chunk(&inner, path).await {
                        let mut vi: Vec<i64> = Vec::new();
                        let mut ms: Vec<String> = Vec::new();
                        let mut nulls = false;
                        for b in &bs {
                            use arrow_array::cast::AsArray;
                            use arrow_array::Array;
                            if let Some(c) = b.column_by_name("value_i64") {
                                if let Some(a) = c.as_primitive_opt::<arrow_array::types::Int64Type>() {
                                    for i in 0..a.len() {
                                        if a.is_null(i) { nulls = true } else { vi.push(a.value(i)) }
                                    }
                                }
                            }
                            if let Some(c) = b.column_by_name("metric_name") {
                                if let Some(a) = c.as_string_opt::<i32>() {
                                    for i in 0..a.len() { ms.push(a.value(i).to_string()) }
                                } else if let Some(a) = c.as_string_view_opt() {
                                    for i in 0..a.len() { ms.push(a.value(i).to_string()) }
                                }
                            }
                        }
                        if let (Some(mn), Some(mx)) = (vi.iter().min(), vi.iter().max()) {
                            e.column_stats.insert("value_i64".into(), cardinalsin::metadata::ColumnStats { min: serde_json::json!(mn), max: serde_json::json!(mx), has_nulls: nulls });
                        }
                        if let (Some(mn), Some(mx)) = (ms.iter().min(), ms.iter().max()) {
                            e.column_stats.insert("metric_name".into(), cardinalsin::metadata::ColumnStats { min: serde_json::json!(mn), max: serde_json::json!(mx), has_nulls: false });
                        }
                    }
                }
                if oc.save_chunk_metadata(&cm).await.is_ok() {
                    sim::probe("catalog-carries-statistics");
                }
            }
            // the query path's catalog client must not serve the version cached before the statistics were attached
            tokio::time::sleep(Duration::from_secs(61)).await;
        }
        // query node
        let mut qc = QueryConfig::default();
        qc.l2_cache_dir = None;
        qc.l1_cache_size = [600usize, 64 << 20][sim::w(2) as usize];
        let indexing = sim::w_bool(40);
        let qn = match QueryNode::new(qc.clone(), store.clone(), meta.clone(), StorageConfig::default()).await {
            Ok(q) => q,
            Err(e) => {
                sim::with(|st| st.abort = Some(format!("query node: {e}")));
                return;
            }
        };
        let qn = if indexing { qn.with_adaptive_indexing(Arc::new(AdaptiveIndexController::new(AdaptiveIndexConfig::default()))) } else { qn };
        sim::log(format!(
            "CONFIG catalog={} ts_type={} rows={} chunks={n_chunks} flush_rows={} l1={} indexing={indexing}",
            if use_local { "local" } else { "object-store" },
            if ts_type_int { "Int64" } else { "Timestamp(ns,UTC)" },
            all_rows.len(),
            icfg.flush_row_count,
            qc.l1_cache_size
        ));
        // A fresh node binds `metrics` to an empty table with the built-in default schema until some query selects
        // a chunk; statements naming other columns (or integer bounds on an Int64 timestamp column) cannot even be
        // planned before that. 9 of 10 runs prime the node the way a dashboard would (an unbounded count, which the
        // engine turns into 'the last hour'); 1 of 10 stays fresh so that this behaviour is re-confirmed every time.
        let fresh_node = sim::w(10) == 9;
        if !fresh_node {
            if let Err(e) = qn.query("SELECT count(*) AS c FROM metrics").await {
                sim::log(format!("priming query failed: {e}"));
            }
        } else {
            sim::probe("fresh-node-mode");
        }
        // queries
        let nq = sim::w_range(6, 12);
        let mut queries: Vec<(String, Vec<&'static str>)> = Vec::new();
        for _ in 0..nq {
            let mut g = Gen { style, now, points: points.clone(), features: vec![] };
            let w = g.where_clause();
            let (sel, tail) = g.select(value_col, true);
            let sql = format!("SELECT {sel} FROM metrics WHERE {}{tail}", g.render(&w));
            queries.push((sql, g.features.clone()));
        }
        let compact_between = sim::w_bool(50);
        // a third of the runs query over a flaky store (requests failing before / after the effect, response bodies
        // breaking part-way): such a query may fail, it may never return a wrong answer
        let flaky = sim::w(3) == 2;
        if flaky {
            let b = 1 + sim::w(3);
            sim::set_cfg(|c| {
                c.fail_before_pm = 30;
                c.fail_after_pm = 10;
                c.body_break_pm = 30;
                // no delays here: the statements' now()-relative bounds were rendered against a clock that stands still
                c.fault_budget = b;
            });
        }
        let faults_so_far = || sim::with(|st| st.faults.values().sum::<u64>());
        let mut hist = format!("{}|{}|", all_rows.len(), n_chunks);
        let mut any_nonempty = false;
        for round in 0..2 {
            if round == 1 {
                if !compact_between {
                    break;
                }
                // change the chunking: one real compaction cycle
                let ccfg = CompactorConfig { l0_merge_threshold: 2, sharding_enabled: false, gc_grace_period: Duration::from_secs(0), ..Default::default() };
                let comp = Compactor::new(ccfg, store.clone(), meta.clone(), StorageConfig::default(), Arc::new(ShardMonitor::new(HotShardConfig::default())));
                if let Err(e) = comp.run_compaction_cycle().await {
                    sim::log(format!("compaction cycle failed: {e}"));
                }
                let after = meta.list_chunks().await.map(|c| c.len()).unwrap_or(0);
                if after != n_chunks {
                    sim::probe("compaction-changed-chunk-set");
                }
                // the query node's catalog view may be up to 60 s stale by design
                tokio::time::sleep(Duration::from_secs(61)).await;
            }
            for (sql, features) in &queries {
                let now_q = sim::wall_ns();
                // now()-relative bounds were rendered against `now`; re-render is not needed as long as time stood still
                if now_q != now && sql.contains("now()") {
                    continue;
                }
                let want = match reference(sql, &all).await {
                    Ok(w) => w,
                    Err(e) => {
                        sim::probe("out-of-family(reference-cannot-plan)");
                        sim::log(format!("SKIP {sql}: {e}"));
                        continue;
                    }
                };
                let want_m = result_multiset(&want);
                if want_m.values().sum::<u32>() > 0 {
                    any_nonempty = true;
                }
                // one statement in four is preceded by a query that selects no chunk at all (a window in the future):
                // the node's `metrics` table is then bound to an empty relation when the statement is planned
                if sim::w(4) == 3 {
                    let fut = now + 500 * HOUR;
                    let _ = qn.query(&format!("SELECT count(*) AS c FROM metrics WHERE timestamp >= {} AND timestamp <= {}", if ts_type_int { format!("{fut}") } else { "TIMESTAMP '2031-01-01T00:00:00'".to_string() }, if ts_type_int { format!("{}", fut + 1) } else { "TIMESTAMP '2031-01-01T00:00:01'".to_string() })).await;
                    sim::probe("statement-planned-on-an-empty-binding");
                }
                for temp in ["cold", "warm"] {
                    if sim::wall_ns() != now && sql.contains("now()") {
                        continue;
                    }
                    let f0 = faults_so_far();
                    let got = qn.query(sql).await;
                    hist.push_str(sql);
                    if got.is_err() && faults_so_far() > f0 {
                        // an injected storage fault hit this query: an error is a legitimate outcome
                        sim::probe("query-failed-under-injected-fault");
                        continue;
                    }
                    match got {
                        Ok(g) => {
                            let got_m = result_multiset(&g);
                            // an ORDER BY of the generator determines the sequence of rows, not just their multiset
                            let order_differs = sql.contains(" ORDER BY ") && got_m == want_m && result_sequence(&g) != result_sequence(&want);
                            if order_differs {
                                sim::violation(
                                    "C04/answer-differs/row-order",
                                    format!("[{temp}, round {round}] {sql} :: the right rows in another order: expected {:?}, got {:?}", result_sequence(&want), result_sequence(&g)),
                                );
                                sim::set_completed();
                                return;
                            }
                            if got_m != want_m {
                                // diagnosis for the trace: what the node extracted and what the catalog holds
                                let tr = qn.engine.extract_time_range(sql).await;
                                let chunks = meta.list_chunks().await.unwrap_or_default();
                                sim::log(format!("DIAG extracted time range: {:?}; catalog chunks: {:?}", tr.map(|t| (t.start, t.end)), chunks.iter().map(|c| (c.min_timestamp, c.max_timestamp, c.row_count)).collect::<Vec<_>>()));
                                if std::env::var("VERIF_DIAG_PLAN").is_ok() {
                                    match qn.engine.execute(&format!("EXPLAIN {sql}")).await {
                                        Ok(b) => sim::log(format!("DIAG plan: {}", arrow::util::pretty::pretty_format_batches(&b).map(|t| t.to_string()).unwrap_or_default())),
                                        Err(e) => sim::log(format!("DIAG plan failed: {e}")),
                                    }
                                }
                                let cause = classify(sql, features);
                                sim::violation(
                                    format!("C04/answer-differs/{cause}"),
                                    format!("[{temp}, round {round}] {sql} :: {}", describe_diff(&want_m, &got_m)),
                                );
                                sim::set_completed();
                                return;
                            }
                        }
                        Err(e) => {
                            let es = e.to_string();
                            let cause = if evolving && es.contains("No field named") {
                                "column-missing-in-some-chunks"
                            } else if fresh_node && (es.contains("No field named") || es.contains("Cannot infer common") || es.contains("cannot be cast") || es.contains("Cannot coerce") || es.contains("type_coercion")) {
                                "fresh-node-default-schema"
                            } else {
                                classify(sql, features)
                            };
                            sim::violation(format!("C04/query-error/{cause}"), format!("[{temp}, round {round}] {sql} :: {e}"));
                            sim::set_completed();
                            return;
                        }
                    }
                }
                for f in features {
                    sim::probe(f);
                }
            }
        }
        // History: time passes, new rows arrive in a chunk of their own, and the same statement texts are sent again
        // (a dashboard refreshing). The meaning of a now()-relative statement moves with the clock; new rows are dated
        // so that the moved windows cover them the way the old windows covered the old rows.
        if sim::w_bool(40) {
            let shift = [40 * 60 * SEC, 2 * HOUR, 25 * HOUR][sim::w(3) as usize];
            let settle = 61 * SEC;
            tokio::time::sleep(Duration::from_nanos(shift as u64)).await;
            let n = sim::w_range(2, 6);
            let recent: Vec<i64> = all_rows.iter().map(|r| r.ts).filter(|t| *t >= now - HOUR).collect();
            let rows: Vec<Row> = (0..n)
                .map(|_| {
                    let p = if recent.is_empty() || sim::w(4) == 3 { points[sim::w(points.len() as u32) as usize] } else { recent[sim::w(recent.len() as u32) as usize] };
                    let mut r = gen.row(p + shift + settle, false);
                    r.vi = Some(r.id % 11);
                    r.vf = Some((r.id % 9) as f64 * 0.25);
                    r
                })
                .collect();
            all_rows.extend(rows.clone());
            if let Err(e) = ing.write(batch(variant, &rows)).await {
                sim::violation("C04/ingest-failed", e.to_string());
                return;
            }
            ing.run_flush_timer().await;
            // the query node's catalog view may be up to 60 s stale by design
            tokio::time::sleep(Duration::from_nanos(settle as u64)).await;
            let all2 = batch(variant, &all_rows);
            sim::probe("statements-sent-again-after-time-passed-and-rows-arrived");
            for (sql, features) in &queries {
                let t0 = sim::wall_ns();
                let want = match reference(sql, &all2).await {
                    Ok(w) => w,
                    Err(_) => continue,
                };
                let f0 = faults_so_far();
                let got = qn.query(sql).await;
                if sim::wall_ns() != t0 && sql.contains("now()") {
                    continue;
                }
                match got {
                    Err(_) if faults_so_far() > f0 => {
                        sim::probe("query-failed-under-injected-fault");
                    }
                    Err(e) => {
                        sim::violation(format!("C04/query-error/{}", classify(sql, features)), format!("[sent again {} s later, after new rows arrived] {sql} :: {e}", (shift + settle) / SEC));
                        sim::set_completed();
                        return;
                    }
                    Ok(g) => {
                        let (want_m, got_m) = (result_multiset(&want), result_multiset(&g));
                        if got_m != want_m || (sql.contains(" ORDER BY ") && result_sequence(&g) != result_sequence(&want)) {
                            let tr = qn.engine.extract_time_range(sql).await;
                            let chunks = meta.list_chunks().await.unwrap_or_default();
                            sim::log(format!("DIAG extracted time range: {:?}; catalog chunks: {:?}", tr.map(|t| (t.start, t.end)), chunks.iter().map(|c| (c.min_timestamp, c.max_timestamp, c.row_count)).collect::<Vec<_>>()));
                            sim::violation(
                                "C04/answer-differs/sent-again-after-new-rows",
                                format!("[sent again {} s later, after new rows arrived] {sql} :: {} (answered correctly the first time)", (shift + settle) / SEC, describe_diff(&want_m, &got_m)),
                            );
                            sim::set_completed();
                            return;
                        }
                        if sql.contains("now()") && want_m.values().sum::<u32>() > 0 {
                            sim::probe("now-relative-statement-sent-again-nonempty");
                        }
                    }
                }
            }
        }
        sim::set_completed();
        sim::set_extra("strict_nontrivial", serde_json::json!(any_nonempty));
        sim::with(|st| st.sched_sig ^= sim::hash_str(&hist));
        sim::state_sig(sim::hash_str(&format!("{n_chunks}:{}", all_rows.len())));
    })
}

/// Structural cause tag of a failing query (from the query text, not from the trace).
fn classify(sql: &str, features: &[&'static str]) -> &'static str {
    if features.contains(&"repeated-subexpression") {
        return "repeated-subexpression";
    }
    if sql.contains("value_i64 <=") || sql.contains("value_i64 >=") {
        return "value-predicate-inclusive-bound";
    }
    let has_eq = sql.contains("timestamp = ");
    if has_eq && (sql.contains(" OR ") || sql.matches("timestamp").count() > 1) {
        return "timestamp-equality-combined";
    }
    if sql.contains("NOT timestamp") || features.contains(&"window-by-negation") {
        return "bound-under-negation";
    }
    if sql.contains("now()") {
        return "now-relative-bound";
    }
    if sql.contains("TIMESTAMP '") {
        return "timestamp-literal-bound";
    }
    "unclassified"
}
