//! Helpers shared by scenarios.

use crate::core::sim;
use crate::core::store::SimStore;
use cardinalsin::ingester::ChunkMetadata;
use cardinalsin::metadata::{MetadataCatalog, MetadataClient, ObjectStoreMetadataClient, ObjectStoreMetadataConfig};
use object_store::memory::InMemory;
use object_store::ObjectStore;
use std::collections::BTreeMap;
use std::sync::Arc;

pub const HOUR: i64 = 3_600_000_000_000;
pub const SEC: i64 = 1_000_000_000;

pub fn os_client(inner: &Arc<InMemory>, node: u32) -> Arc<ObjectStoreMetadataClient> {
    let store: Arc<dyn ObjectStore> = SimStore::new(inner.clone(), node);
    Arc::new(ObjectStoreMetadataClient::new(store, ObjectStoreMetadataConfig::default()))
}

/// A client on the raw store (no gates, no faults): for oracles and set-up only.
pub fn raw_client(inner: &Arc<InMemory>) -> ObjectStoreMetadataClient {
    ObjectStoreMetadataClient::new(inner.clone(), ObjectStoreMetadataConfig::default())
}

pub fn chunk_meta(path: &str, min: i64, max: i64, rows: u64, size: u64) -> ChunkMetadata {
    ChunkMetadata { path: path.to_string(), min_timestamp: min, max_timestamp: max, row_count: rows, size_bytes: size }
}

/// Sequential reference model of the catalog object.
#[derive(Debug, Clone, Default, PartialEq)]
pub struct CatModel {
    /// path -> (min, max, rows, size, level)
    pub chunks: BTreeMap<String, (i64, i64, u64, u64, u32)>,
    /// bucket -> paths in insertion order
    pub index: BTreeMap<i64, Vec<String>>,
}

pub fn bucket(ts: i64) -> i64 {
    (ts / HOUR) * HOUR
}

impl CatModel {
    pub fn from_catalog(c: &MetadataCatalog) -> CatModel {
        let mut m = CatModel::default();
        for (p, e) in &c.chunks {
            m.chunks.insert(p.clone(), (e.base.min_timestamp, e.base.max_timestamp, e.base.row_count, e.base.size_bytes, e.level));
        }
        for (b, v) in &c.time_index {
            m.index.insert(*b, v.clone());
        }
        m
    }
    pub fn parse(bytes: &[u8]) -> Result<CatModel, String> {
        let c: MetadataCatalog = serde_json::from_slice(bytes).map_err(|e| format!("catalog version does not parse: {e}"))?;
        Ok(Self::from_catalog(&c))
    }
    pub fn register(&mut self, m: &ChunkMetadata) {
        self.chunks.insert(m.path.clone(), (m.min_timestamp, m.max_timestamp, m.row_count, m.size_bytes, 0));
        let mut b = bucket(m.min_timestamp);
        let e = bucket(m.max_timestamp);
        while b <= e {
            self.index.entry(b).or_default().push(m.path.clone());
            b += HOUR;
        }
    }
    pub fn delete(&mut self, path: &str) {
        self.chunks.remove(path);
        for v in self.index.values_mut() {
            v.retain(|p| p != path);
        }
        self.index.retain(|_, v| !v.is_empty());
    }
    /// Err = the operation must fail without a transition
    pub fn complete(&mut self, sources: &[String], target: &str) -> Result<(), ()> {
        let mut m = self.clone();
        let lvl = sources.iter().filter_map(|p| m.chunks.get(p).map(|c| c.4)).max().unwrap_or(0) + 1;
        for s in sources {
            m.delete(s);
        }
        match m.chunks.get_mut(target) {
            Some(c) => c.4 = lvl,
            None => return Err(()),
        }
        *self = m;
        Ok(())
    }
    /// chunk-list / time-index agreement
    pub fn agreement(&self) -> Result<(), String> {
        for (p, c) in &self.chunks {
            let mut b = bucket(c.0);
            let e = bucket(c.1);
            while b <= e {
                if !self.index.get(&b).map(|v| v.contains(p)).unwrap_or(false) {
                    return Err(format!("chunk {p} [{}..{}] is not listed under hour bucket {b}", c.0, c.1));
                }
                b += HOUR;
            }
        }
        for (b, v) in &self.index {
            for p in v {
                if !self.chunks.contains_key(p) {
                    return Err(format!("time index bucket {b} lists {p} which is not in the chunk map"));
                }
            }
        }
        Ok(())
    }
    pub fn overlapping(&self, start: i64, end: i64) -> Vec<String> {
        let mut v: Vec<String> = self.chunks.iter().filter(|(_, c)| c.0 <= end && c.1 >= start).map(|(p, _)| p.clone()).collect();
        v.sort();
        v
    }
}

/// Per-run fault profile for metadata-only scenarios (swarm style).
pub fn draw_store_fault_profile(allow_faults: bool) -> &'static str {
    let k = if allow_faults { sim::w(3) } else { 0 };
    match k {
        0 => {
            sim::set_cfg(|c| {
                c.fault_budget = 0;
            });
            "fault-free"
        }
        1 => {
            let budget = 1 + sim::w(3);
            sim::set_cfg(|c| {
                c.fail_before_pm = 40;
                c.fail_after_pm = 40;
                c.delay_pm = 20;
                c.body_break_pm = 15;
                c.fault_budget = budget;
            });
            "store-faults"
        }
        _ => {
            let budget = 2 + sim::w(4);
            sim::set_cfg(|c| {
                c.fail_before_pm = 10;
                c.fail_after_pm = 10;
                c.delay_pm = 80;
                c.fault_budget = budget;
                // and one outage: a run of consecutive failures of one node's requests
                c.outage_pm = 25;
                c.outage_budget = 1;
            });
            "mostly-delays+outage"
        }
    }
}

pub async fn list_sorted(c: &dyn MetadataClient) -> Result<Vec<String>, String> {
    let mut v: Vec<String> = c.list_chunks().await.map_err(|e| e.to_string())?.into_iter().map(|e| e.chunk_path).collect();
    v.sort();
    Ok(v)
}
