//! Shared helpers for the ingest / query scenarios: batch generation with unique
//! row ids, chunk decoding, canonical row rendering.

use crate::core::sim;
use arrow::util::display::{ArrayFormatter, FormatOptions};
use arrow_array::cast::AsArray;
use arrow_array::types::{Float64Type, Int64Type};
use arrow_array::{Array, ArrayRef, Float64Array, Int64Array, RecordBatch, StringArray, TimestampNanosecondArray, UInt64Array};
use arrow_schema::{DataType, Field, Schema, SchemaRef, TimeUnit};
use bytes::Bytes;
use object_store::memory::InMemory;
use object_store::path::Path;
use object_store::ObjectStore;
use std::collections::BTreeMap;
use std::sync::Arc;

/// One logical row as generated (everything the oracle needs to know).
#[derive(Debug, Clone, PartialEq)]
pub struct Row {
    pub id: i64,
    pub ts: i64,
    pub metric: String,
    pub host: Option<String>,
    pub vi: Option<i64>,
    pub vf: Option<f64>,
    pub vu: Option<u64>,
}

/// Schema variants:
/// 0: ts Int64, metric, value_i64, id
/// 1: ts Int64, metric, host(nullable), value_i64, id
/// 2: ts Timestamp(ns,UTC), metric, value_f64, id
/// 3: ts Timestamp(ns,UTC), metric, host(nullable), value_i64, value_f64, value_u64, id
/// 4: like 3 with an Int64 timestamp
/// 5: like 0 with the value column declared non-nullable (differs from 0 in nullability only)
/// 6: like 0 with the columns in another order (id before value_i64)
/// 7: like 0 with schema-level metadata (differs from 0 in metadata only)
/// 8: like 2 but the column named value_f64 is typed Int64 (same column names as 2, another type)
/// 9: like 2 with a Timestamp(Microsecond, UTC) column (row timestamps must be whole microseconds)
pub fn schema(variant: u32) -> SchemaRef {
    let ts_int = Field::new("timestamp", DataType::Int64, false);
    let ts_ts = Field::new("timestamp", DataType::Timestamp(TimeUnit::Nanosecond, Some("UTC".into())), false);
    let metric = Field::new("metric_name", DataType::Utf8, false);
    let host = Field::new("host", DataType::Utf8, true);
    let vi = Field::new("value_i64", DataType::Int64, true);
    let vf = Field::new("value_f64", DataType::Float64, true);
    let vu = Field::new("value_u64", DataType::UInt64, true);
    let id = Field::new("id", DataType::Int64, false);
    Arc::new(match variant {
        0 => Schema::new(vec![ts_int, metric, vi, id]),
        5 => Schema::new(vec![ts_int, metric, Field::new("value_i64", DataType::Int64, false), id]),
        6 => Schema::new(vec![ts_int, metric, id, vi]),
        7 => Schema::new(vec![ts_int, metric, vi, id]).with_metadata([("origin".to_string(), "agent-7".to_string())].into_iter().collect()),
        1 => Schema::new(vec![ts_int, metric, host, vi, id]),
        2 => Schema::new(vec![ts_ts, metric, vf, id]),
        8 => Schema::new(vec![ts_ts, metric, Field::new("value_f64", DataType::Int64, true), id]),
        9 => Schema::new(vec![Field::new("timestamp", DataType::Timestamp(TimeUnit::Microsecond, Some("UTC".into())), false), metric, vf, id]),
        4 => Schema::new(vec![ts_int, metric, host, vi, vf, vu, id]),
        _ => Schema::new(vec![ts_ts, metric, host, vi, vf, vu, id]),
    })
}

pub fn batch(variant: u32, rows: &[Row]) -> RecordBatch {
    let s = schema(variant);
    let ts: Vec<i64> = rows.iter().map(|r| r.ts).collect();
    let ts_col: ArrayRef = if variant == 9 {
        Arc::new(arrow_array::TimestampMicrosecondArray::from(ts.iter().map(|t| t.div_euclid(1000)).collect::<Vec<i64>>()).with_timezone("UTC"))
    } else if variant <= 1 || (4..=7).contains(&variant) {
        Arc::new(Int64Array::from(ts))
    } else {
        Arc::new(TimestampNanosecondArray::from(ts).with_timezone("UTC"))
    };
    let metric: ArrayRef = Arc::new(StringArray::from(rows.iter().map(|r| r.metric.clone()).collect::<Vec<_>>()));
    let host: ArrayRef = Arc::new(StringArray::from(rows.iter().map(|r| r.host.clone()).collect::<Vec<_>>()));
    let vi: ArrayRef = if variant == 5 {
        // declared non-nullable: NULLs become 0 (the rows' canonical strings are taken from the batch, not from `Row`)
        Arc::new(Int64Array::from(rows.iter().map(|r| r.vi.unwrap_or(0)).collect::<Vec<i64>>()))
    } else {
        Arc::new(Int64Array::from(rows.iter().map(|r| r.vi).collect::<Vec<_>>()))
    };
    let vf: ArrayRef = Arc::new(Float64Array::from(rows.iter().map(|r| r.vf).collect::<Vec<_>>()));
    let vu: ArrayRef = Arc::new(UInt64Array::from(rows.iter().map(|r| r.vu).collect::<Vec<_>>()));
    let id: ArrayRef = Arc::new(Int64Array::from(rows.iter().map(|r| r.id).collect::<Vec<_>>()));
    let cols = match variant {
        0 | 5 | 7 => vec![ts_col, metric, vi, id],
        6 => vec![ts_col, metric, id, vi],
        1 => vec![ts_col, metric, host, vi, id],
        2 | 9 => vec![ts_col, metric, vf, id],
        8 => vec![ts_col, metric, vi, id],
        4 => vec![ts_col, metric, host, vi, vf, vu, id],
        _ => vec![ts_col, metric, host, vi, vf, vu, id],
    };
    RecordBatch::try_new(s, cols).expect("batch")
}

pub fn decode_parquet(bytes: Bytes) -> Result<Vec<RecordBatch>, String> {
    let b = parquet::arrow::arrow_reader::ParquetRecordBatchReaderBuilder::try_new(bytes).map_err(|e| e.to_string())?;
    let r = b.build().map_err(|e| e.to_string())?;
    let mut v = Vec::new();
    for x in r {
        v.push(x.map_err(|e| e.to_string())?);
    }
    Ok(v)
}

pub fn ids_of(b: &RecordBatch) -> Vec<i64> {
    match b.column_by_name("id") {
        Some(c) => match c.as_primitive_opt::<Int64Type>() {
            Some(a) => (0..a.len()).map(|i| a.value(i)).collect(),
            None => vec![],
        },
        None => vec![],
    }
}

pub fn ts_of(b: &RecordBatch) -> Vec<i64> {
    let c = b.column_by_name("timestamp").expect("timestamp column");
    if let Some(a) = c.as_primitive_opt::<Int64Type>() {
        return (0..a.len()).map(|i| a.value(i)).collect();
    }
    if let Some(a) = c.as_primitive_opt::<arrow_array::types::TimestampNanosecondType>() {
        return (0..a.len()).map(|i| a.value(i)).collect();
    }
    if let Some(a) = c.as_primitive_opt::<arrow_array::types::TimestampMicrosecondType>() {
        return (0..a.len()).map(|i| a.value(i) * 1000).collect();
    }
    vec![]
}

/// Canonical rendering of one cell (floats bitwise, everything else through arrow's formatter).
fn cell(col: &ArrayRef, i: usize) -> String {
    if col.is_null(i) {
        return "NULL".into();
    }
    if let Some(a) = col.as_primitive_opt::<Float64Type>() {
        let v = a.value(i);
        return if v.is_nan() { "f:NaN".into() } else { format!("f:{:016x}", v.to_bits()) };
    }
    let opts = FormatOptions::default();
    match ArrayFormatter::try_new(col.as_ref(), &opts) {
        Ok(f) => f.value(i).to_string(),
        Err(_) => "?".into(),
    }
}

/// Each row as "col=value|..." with columns sorted by name.
pub fn row_strings(b: &RecordBatch) -> Vec<String> {
    let schema = b.schema();
    let mut names: Vec<(String, usize)> = schema.fields().iter().enumerate().map(|(i, f)| (f.name().clone(), i)).collect();
    names.sort();
    (0..b.num_rows())
        .map(|r| names.iter().map(|(n, i)| format!("{n}={}", cell(b.column(*i), r))).collect::<Vec<_>>().join("|"))
        .collect()
}

pub fn multiset(rows: impl IntoIterator<Item = String>) -> BTreeMap<String, u32> {
    let mut m = BTreeMap::new();
    for r in rows {
        *m.entry(r).or_insert(0) += 1;
    }
    m
}

pub fn diff_multiset(want: &BTreeMap<String, u32>, got: &BTreeMap<String, u32>) -> (Vec<String>, Vec<String>) {
    let mut missing = Vec::new();
    let mut extra = Vec::new();
    for (k, n) in want {
        let g = got.get(k).copied().unwrap_or(0);
        if g < *n {
            missing.push(format!("{k} (x{})", n - g));
        }
    }
    for (k, n) in got {
        let w = want.get(k).copied().unwrap_or(0);
        if *n > w {
            extra.push(format!("{k} (x{})", n - w));
        }
    }
    (missing, extra)
}

pub async fn read_chunk(inner: &Arc<InMemory>, path: &str) -> Result<Vec<RecordBatch>, String> {
    let g = inner.get(&Path::from(path)).await.map_err(|e| format!("chunk file {path}: {e}"))?;
    let bytes = g.bytes().await.map_err(|e| e.to_string())?;
    decode_parquet(bytes)
}

/// Generator of rows with unique ids.
pub struct RowGen {
    pub next_id: i64,
    pub metrics: Vec<String>,
    pub hosts: Vec<Option<String>>,
}
impl RowGen {
    pub fn new() -> RowGen {
        RowGen {
            next_id: 1,
            metrics: vec!["cpu".into(), "mem".into(), "disk".into()],
            hosts: vec![None, Some("a".into()), Some("b".into()), Some("c".into())],
        }
    }
    pub fn row(&mut self, ts: i64, extreme_values: bool) -> Row {
        let id = self.next_id;
        self.next_id += 1;
        let vi = if extreme_values {
            [Some(0), Some(i64::MAX), Some(i64::MIN), Some(-1), None][sim::w(5) as usize]
        } else {
            Some(id % 7)
        };
        let vf = if extreme_values {
            [Some(0.0), Some(-0.0), Some(f64::MAX), Some(f64::MIN_POSITIVE / 2.0), Some(f64::INFINITY), Some(f64::NEG_INFINITY), Some(f64::NAN), None][sim::w(8) as usize]
        } else {
            Some((id % 5) as f64 * 0.5)
        };
        let vu = if extreme_values { [Some(0), Some(u64::MAX), Some(1), None][sim::w(4) as usize] } else { Some((id % 3) as u64) };
        Row { id, ts, metric: sim::w_pick(&self.metrics), host: sim::w_pick(&self.hosts), vi, vf, vu }
    }
}
