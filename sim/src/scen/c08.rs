//! C08 — compaction leases are exclusive while live and reclaimable once expired.

use super::common::*;
use crate::core::coord::PropDef;
use crate::core::run::{RunSpec, ScenFut};
use crate::core::sim::{self, Fault};
use crate::core::store::{self, SimStore, StoreEvent};
use cardinalsin::metadata::{CompactionLeases, LeaseStatus, MetadataClient, ObjectStoreMetadataClient, ObjectStoreMetadataConfig};
use object_store::memory::InMemory;
use object_store::ObjectStore;
use std::collections::BTreeMap;
use std::sync::{Arc, Mutex};
use std::time::Duration;

pub static DEF: PropDef = PropDef {
    id: "C08",
    level: "exploration",
    engine: "meta-cas",
    rule: "four runs in five: 2..4 nodes with real ObjectStoreMetadataClients issuing 4..9 lease operations each (acquire over overlapping 1..3-chunk sets, renew on time / late / never, complete, fail, scavenge) separated by drawn virtual pauses of 0..400 s, all on one shared virtual clock; every store request is a seeded scheduling point and the scheduler may let time pass between a request's GET and PUT (past the 300 s TTL); 2/3 of runs add request failures/delays; distinct = distinct (node, request kind, object class, fault, advance) decision sequence; non-trivial = completed AND (interleaved OR fault fired); one run in five: the same operations on one shared in-memory LocalMetadataClient, interleaved at call granularity on the shared clock, with the per-call checks 'live leases disjoint', 'only non-live leases disappear', 'renewal of a reclaimed or finished lease is refused', and the final reclaimability check",
    quick_runs: 15000,
    thorough_runs: 150_000,
    run_cap_ms: 20_000,
    scen,
    extra_phase: None,
    real: &["ObjectStoreMetadataClient::{acquire_lease, renew_lease, complete_lease, fail_lease, scavenge_leases, load_leases}", "chrono::Utc::now() via interposed clock", "tokio timers (virtual)"],
    stub: &["S3 = InMemory behind SimStore", "one clock for all nodes (as the statement assumes)"],
    assumptions: &["all nodes read the same clock", "strongly consistent store with atomic conditional PUT"],
};

#[derive(Debug, Clone, PartialEq)]
struct L {
    holder: String,
    chunks: Vec<String>,
    acquired: i64,
    expires: i64,
    level: u32,
    status: LeaseStatus,
}
type LM = BTreeMap<String, L>;

fn parse(bytes: &[u8]) -> Result<LM, String> {
    let c: CompactionLeases = serde_json::from_slice(bytes).map_err(|e| e.to_string())?;
    Ok(c.leases
        .into_iter()
        .map(|(k, l)| {
            (
                k,
                L {
                    holder: l.holder_id,
                    chunks: l.chunks,
                    acquired: l.acquired_at.timestamp_nanos_opt().unwrap_or(0),
                    expires: l.expires_at.timestamp_nanos_opt().unwrap_or(0),
                    level: l.level,
                    status: l.status,
                },
            )
        })
        .collect())
}

#[derive(Debug, Clone)]
enum Op {
    Acquire { chunks: Vec<String>, level: u32 },
    Renew { id: String },
    Complete { id: String },
    Fail { id: String },
    Scavenge,
}

#[derive(Debug, Clone)]
struct Rec {
    node: u32,
    op: Op,
    inv: u64,
    ret: u64,
    t_inv: i64,
    ok: bool,
    err: String,
    lease_id: Option<String>,
}

const TTL: i64 = 300 * SEC;

fn lm_of(c: CompactionLeases) -> LM {
    c.leases
        .into_iter()
        .map(|(k, l)| {
            (k, L { holder: l.holder_id, chunks: l.chunks, acquired: l.acquired_at.timestamp_nanos_opt().unwrap_or(0), expires: l.expires_at.timestamp_nanos_opt().unwrap_or(0), level: l.level, status: l.status })
        })
        .collect()
}

/// The in-memory backend: one shared client, lease calls of 2..4 nodes interleaved at call granularity with drawn
/// pauses on the shared virtual clock. After every call: live leases pairwise disjoint; a renewal of a lease that is
/// no longer in the table as an active lease must be refused; at the end everything is acquirable 301 s later.
async fn local_variant() {
    use cardinalsin::metadata::LocalMetadataClient;
    let client: Arc<LocalMetadataClient> = Arc::new(LocalMetadataClient::new());
    let nodes = sim::w_range(2, 4);
    let nchunks = sim::w_range(2, 5);
    sim::set_cfg(|c| {
        c.adv_pct = 10;
        c.ticks_ms = vec![100, 10_000, 150_000, 299_000, 301_000, 400_000];
        c.max_virtual_ns = 24 * 3600 * 1_000_000_000;
    });
    sim::log(format!("CONFIG backend=in-memory nodes={nodes} chunks={nchunks}"));
    let mut hs = Vec::new();
    for n in 0..nodes {
        let k = sim::w_range(4, 9);
        let ops: Vec<(u32, u32, u32, u32, u64)> = (0..k)
            .map(|_| (sim::w(8), sim::w(nchunks), sim::w_range(1, 3), sim::w(3), [0u64, 0, 1_000, 30_000, 119_000, 150_000, 280_000, 299_900, 300_000, 300_100, 400_000][sim::w(11) as usize]))
            .collect();
        let client = client.clone();
        hs.push(tokio::spawn(async move {
            let mut held: Option<String> = None;
            let mut old: Option<String> = None;
            for (kind, a, len, lvl, pause) in ops {
                sim::yield_point(n, "before lease call").await;
                let before = client.load_leases().await.map(lm_of).unwrap_or_default();
                let now = sim::wall_ns();
                let chunks: Vec<String> = (0..len).map(|i| format!("c{}", (a + i) % nchunks)).collect();
                let what;
                match (held.clone(), kind) {
                    (None, 0..=5) | (Some(_), 7) => {
                        what = format!("acquire {:?}", chunks);
                        if let Ok(l) = client.acquire_lease(&format!("n{n}"), &chunks, lvl).await {
                            if held.is_some() {
                                old = held.clone();
                            }
                            held = Some(l.lease_id);
                        }
                    }
                    (None, 6) | (Some(_), 0..=3) => {
                        let id = match (held.clone(), old.clone()) {
                            (Some(id), _) => id,
                            (None, Some(id)) => id,
                            _ => continue,
                        };
                        what = format!("renew {id}");
                        // reclaimed = gone from the table (an acquire or a scavenge removed it after expiry) or terminal; an
                        // expired lease that nobody has reclaimed yet may still be renewed (both backends allow that)
                        let live_before = before.get(&id).map(|l| l.status == LeaseStatus::Active).unwrap_or(false);
                        let r = client.renew_lease(&id).await;
                        if r.is_ok() && !live_before {
                            sim::violation("C08/renew-of-reclaimed-lease-accepted", format!("in-memory backend: renewal of {id} succeeded although the lease was {:?} before the call (now {now})", before.get(&id)));
                        }
                        if r.is_err() && held.as_ref() == Some(&id) {
                            old = held.take();
                        }
                    }
                    (Some(id), 4) => {
                        what = format!("complete {id}");
                        let _ = client.complete_lease(&id).await;
                        old = held.take();
                    }
                    (Some(id), 5) => {
                        what = format!("fail {id}");
                        let _ = client.fail_lease(&id).await;
                        old = held.take();
                    }
                    _ => {
                        what = "scavenge".to_string();
                        let _ = client.scavenge_leases().await;
                    }
                }
                let after = client.load_leases().await.map(lm_of).unwrap_or_default();
                sim::log(format!("n{n} {what}: {} leases after", after.len()));
                if let Err(e) = live_disjoint(&after, sim::wall_ns()) {
                    sim::violation("C08/two-live-leases-share-chunk", format!("in-memory backend, after n{n} {what}: {e}"));
                }
                // nothing but non-live leases may disappear, nothing that stays live may change hands
                for (id, l) in &before {
                    let was_live = l.status == LeaseStatus::Active && l.expires > now;
                    match after.get(id) {
                        None if was_live && !what.contains(id.as_str()) => sim::violation("C08/wrong-transition/live-lease-removed", format!("in-memory backend: live lease {id} of {} vanished during n{n} {what}", l.holder)),
                        Some(a) if a.holder != l.holder || a.chunks != l.chunks => sim::violation("C08/wrong-transition/lease-changed-hands", format!("in-memory backend: lease {id} changed during n{n} {what}")),
                        _ => {}
                    }
                }
                if pause > 0 {
                    tokio::time::sleep(Duration::from_millis(pause)).await;
                }
            }
        }));
    }
    for h in hs {
        let _ = h.await;
    }
    sim::faults_off();
    tokio::time::sleep(Duration::from_secs(301)).await;
    let all: Vec<String> = (0..nchunks).map(|i| format!("c{i}")).collect();
    if let Err(e) = client.acquire_lease("late", &all, 0).await {
        sim::violation("C08/expired-lease-not-reclaimable", format!("in-memory backend: 301 s after the last operation acquire of all chunks failed: {e}"));
    }
    sim::set_completed();
    sim::set_nontrivial();
}

fn scen(_spec: RunSpec) -> ScenFut {
    Box::pin(async move {
        // one run in five exercises the in-memory backend
        if sim::w(5) == 4 {
            local_variant().await;
            return;
        }
        let inner = Arc::new(InMemory::new());
        let nodes = sim::w_range(2, 4);
        let nchunks = sim::w_range(2, 5);
        let profile = draw_store_fault_profile(true);
        let post = sim::w_bool(40);
        let adv = [0u32, 5, 15, 30][sim::w(4) as usize];
        sim::set_cfg(|c| {
            c.post_gates = post;
            c.adv_pct = adv;
            c.ticks_ms = vec![100, 10_000, 150_000, 299_000, 301_000, 400_000];
            c.max_virtual_ns = 24 * 3600 * 1_000_000_000;
        });
        // a fifth of the runs starve one node's requests (adversarial schedule: conflict-retry exhaustion)
        if sim::w(5) == 4 {
            sim::set_cfg(|c| c.starve_node = Some(0));
            sim::probe("starved-node-schedule");
        }
        sim::log(format!("CONFIG nodes={nodes} chunks={nchunks} profile={profile} post_gates={post} adv_pct={adv}"));
        let recs: Arc<Mutex<Vec<Rec>>> = Arc::new(Mutex::new(Vec::new()));
        // plans: (kind, a, b, pause_ms)
        let mut plans = Vec::new();
        for _n in 0..nodes {
            let k = sim::w_range(4, 9);
            let mut ops = Vec::new();
            for _ in 0..k {
                let pause = [0u64, 0, 1_000, 30_000, 119_000, 150_000, 280_000, 299_900, 300_000, 300_100, 400_000][sim::w(11) as usize];
                ops.push((sim::w(8), sim::w(nchunks), sim::w_range(1, 3), sim::w(3), pause));
            }
            plans.push(ops);
        }
        let mut hs = Vec::new();
        for (n, ops) in plans.into_iter().enumerate() {
            let n = n as u32;
            let store: Arc<dyn ObjectStore> = SimStore::new(inner.clone(), n);
            let client = ObjectStoreMetadataClient::new(store, ObjectStoreMetadataConfig::default());
            let recs = recs.clone();
            hs.push(tokio::spawn(async move {
                let mut held: Option<String> = None;
                let mut old: Option<String> = None; // a lease this node no longer believes it holds
                for (kind, a, len, lvl, pause) in ops {
                    let op = match (held.clone(), kind) {
                        (None, 0..=5) => {
                            let chunks: Vec<String> = (0..len).map(|i| format!("c{}", (a + i) % nchunks)).collect();
                            Op::Acquire { chunks, level: lvl }
                        }
                        (None, 6) => match old.clone() {
                            Some(id) => Op::Renew { id }, // renewing something given up / reclaimed
                            None => Op::Scavenge,
                        },
                        (None, _) => Op::Scavenge,
                        (Some(id), 0..=3) => Op::Renew { id },
                        (Some(id), 4) => Op::Complete { id },
                        (Some(id), 5) => Op::Fail { id },
                        (Some(_), 6) => Op::Scavenge,
                        (Some(_), _) => {
                            let chunks: Vec<String> = (0..len).map(|i| format!("c{}", (a + i) % nchunks)).collect();
                            Op::Acquire { chunks, level: lvl }
                        }
                    };
                    let inv = sim::ev();
                    let t_inv = sim::wall_ns();
                    sim::log(format!("INVOKE n{n} {:?}", op));
                    let mut lease_id = None;
                    let r: Result<(), String> = match &op {
                        Op::Acquire { chunks, level } => match client.acquire_lease(&format!("n{n}"), chunks, *level).await {
                            Ok(l) => {
                                lease_id = Some(l.lease_id.clone());
                                if held.is_some() {
                                    old = held.clone();
                                }
                                held = Some(l.lease_id);
                                Ok(())
                            }
                            Err(e) => Err(e.to_string()),
                        },
                        Op::Renew { id } => {
                            let r = client.renew_lease(id).await.map_err(|e| e.to_string());
                            if r.is_err() && held.as_ref() == Some(id) {
                                old = held.take();
                            }
                            r
                        }
                        Op::Complete { id } => {
                            let r = client.complete_lease(id).await.map_err(|e| e.to_string());
                            old = held.take();
                            let _ = id;
                            r
                        }
                        Op::Fail { id } => {
                            let r = client.fail_lease(id).await.map_err(|e| e.to_string());
                            old = held.take();
                            let _ = id;
                            r
                        }
                        Op::Scavenge => client.scavenge_leases().await.map(|_| ()).map_err(|e| e.to_string()),
                    };
                    let ret = sim::ev();
                    sim::log(format!("RETURN n{n} -> {:?} {:?}", r, lease_id));
                    recs.lock().unwrap().push(Rec { node: n, op, inv, ret, t_inv, ok: r.is_ok(), err: r.err().unwrap_or_default(), lease_id });
                    if pause > 0 {
                        tokio::time::sleep(Duration::from_millis(pause)).await;
                    }
                }
            }));
        }
        for h in hs {
            let _ = h.await;
        }
        sim::faults_off();
        let recs_v = recs.lock().unwrap().clone();
        check(&recs_v);
        // bounded liveness: after every lease had time to expire, an uncontended acquire of everything succeeds
        tokio::time::sleep(Duration::from_secs(301)).await;
        let fresh = ObjectStoreMetadataClient::new(SimStore::new(inner.clone(), 9), ObjectStoreMetadataConfig::default());
        let all: Vec<String> = (0..nchunks).map(|i| format!("c{i}")).collect();
        match fresh.acquire_lease("late", &all, 0).await {
            Ok(_) => {}
            Err(e) => sim::violation(
                "C08/expired-lease-not-reclaimable",
                format!("301 s after the last operation, with no faults, acquire of all chunks failed: {e}"),
            ),
        }
        sim::set_completed();
    })
}

fn live_disjoint(m: &LM, now: i64) -> Result<(), String> {
    let live: Vec<(&String, &L)> = m.iter().filter(|(_, l)| l.status == LeaseStatus::Active && l.expires > now).collect();
    for i in 0..live.len() {
        for j in i + 1..live.len() {
            if live[i].1.chunks.iter().any(|c| live[j].1.chunks.contains(c)) {
                return Err(format!(
                    "leases {} (holder {}, chunks {:?}, expires +{}s) and {} (holder {}, chunks {:?}, expires +{}s) are both live",
                    &live[i].0[..8],
                    live[i].1.holder,
                    live[i].1.chunks,
                    (live[i].1.expires - now) / SEC,
                    &live[j].0[..8],
                    live[j].1.holder,
                    live[j].1.chunks,
                    (live[j].1.expires - now) / SEC
                ));
            }
        }
    }
    Ok(())
}

fn check(recs: &[Rec]) {
    let versions: Vec<StoreEvent> = store::versions("compaction-leases.json");
    let events = store::events();
    let epoch = sim::EPOCH_NS as i64;
    let mut prev: LM = LM::new();
    let mut owned = vec![0u32; recs.len()];
    for v in &versions {
        let t_put = epoch + v.t_ns as i64;
        let got = match parse(v.payload.as_ref().unwrap()) {
            Ok(g) => g,
            Err(e) => {
                sim::violation("C08/version-unparseable", e);
                return;
            }
        };
        if let Err(e) = live_disjoint(&got, t_put) {
            sim::violation("C08/two-live-leases-share-chunk", format!("lease file version written at event {} (t=+{}s): {e}", v.ev, v.t_ns / 1_000_000_000));
        }
        let owner = recs.iter().position(|r| r.node == v.node && r.inv < v.ev && v.ev < r.ret);
        let Some(i) = owner else {
            sim::violation("C08/unattributed-version", format!("lease file version at event {} by n{} belongs to no operation", v.ev, v.node));
            prev = got;
            continue;
        };
        owned[i] += 1;
        let r = &recs[i];
        let t_inv = r.t_inv;
        let in_window = |now: i64| now >= t_inv && now <= t_put;
        let mut why: Option<String> = None;
        match &r.op {
            Op::Acquire { chunks, level } => {
                // the new lease = the one id not in prev
                let new_ids: Vec<&String> = got.keys().filter(|k| !prev.contains_key(*k)).collect();
                if new_ids.len() != 1 {
                    why = Some(format!("acquire added {} leases", new_ids.len()));
                } else {
                    let nl = &got[new_ids[0]];
                    let now = nl.acquired;
                    if !in_window(now) {
                        why = Some(format!("acquired_at is outside the call's [invoke, write] interval ({} vs {}..{})", now - epoch, t_inv - epoch, t_put - epoch));
                    }
                    if nl.expires != now + TTL || &nl.chunks != chunks || nl.level != *level || nl.status != LeaseStatus::Active || nl.holder != format!("n{}", r.node) {
                        why = Some(format!("new lease has unexpected fields {:?}", nl));
                    }
                    // model: no live overlapping lease may exist at the acquirer's clock reading; leases may be
                    // dropped only if they are no longer live (expired or terminal); everything else is unchanged
                    if let Some((id, l)) = prev.iter().find(|(_, l)| l.status == LeaseStatus::Active && l.expires > now && l.chunks.iter().any(|c| chunks.contains(c))) {
                        why = Some(format!(
                            "acquire of {:?} succeeded although lease {} of {} on {:?} was live (expires +{}s after the acquirer's clock reading)",
                            chunks,
                            &id[..8],
                            l.holder,
                            l.chunks,
                            (l.expires - now) / SEC
                        ));
                    }
                    for (id, l) in &prev {
                        match got.get(id) {
                            Some(g) if g == l => {}
                            Some(_) => {
                                if why.is_none() {
                                    why = Some(format!("acquire modified the unrelated lease {}", &id[..8]));
                                }
                            }
                            None => {
                                if l.status == LeaseStatus::Active && l.expires > now && why.is_none() {
                                    why = Some(format!("acquire removed lease {} of {} which was still live (expires +{}s)", &id[..8], l.holder, (l.expires - now) / SEC));
                                }
                            }
                        }
                    }
                }
            }
            Op::Renew { id } => match prev.get(id) {
                Some(pl) if pl.status == LeaseStatus::Active => {
                    let mut exp = prev.clone();
                    let ne = got.get(id).map(|l| l.expires).unwrap_or(0);
                    if !in_window(ne - TTL) {
                        why = Some(format!("renewed expiry {} is not (a clock reading inside the call) + 300 s", ne - epoch));
                    }
                    exp.get_mut(id).unwrap().expires = ne;
                    if why.is_none() && exp != got {
                        why = Some("version is not apply(renew, previous)".into());
                    }
                }
                Some(_) => why = Some("renew wrote a version for a lease that is not active".into()),
                None => why = Some(format!("renew resurrected lease {} that was no longer in the lease file (it had been reclaimed)", &id[..8])),
            },
            Op::Complete { id } | Op::Fail { id } => match prev.get(id) {
                Some(_) => {
                    let mut exp = prev.clone();
                    exp.get_mut(id).unwrap().status = if matches!(r.op, Op::Complete { .. }) { LeaseStatus::Completed } else { LeaseStatus::Failed };
                    if exp != got {
                        why = Some("version is not apply(complete/fail, previous)".into());
                    }
                }
                None => why = Some("complete/fail wrote a version for a missing lease".into()),
            },
            Op::Scavenge => {
                let removed: Vec<&L> = prev.iter().filter(|(k, _)| !got.contains_key(*k)).map(|(_, l)| l).collect();
                let kept_ok = got.iter().all(|(k, l)| prev.get(k) == Some(l));
                if !kept_ok {
                    why = Some("scavenge changed or added a lease".into());
                }
                let max_removed_active = removed.iter().filter(|l| l.status == LeaseStatus::Active).map(|l| l.expires).max();
                if let Some(mx) = max_removed_active {
                    if mx > t_put {
                        why = Some(format!("scavenge removed an active lease that expires {}s after the write", (mx - t_put) / SEC));
                    }
                }
            }
        }
        if let Some(w) = why {
            let tag = match &r.op {
                Op::Acquire { .. } => "acquire",
                Op::Renew { .. } => "renew",
                Op::Complete { .. } | Op::Fail { .. } => "terminal",
                Op::Scavenge => "scavenge",
            };
            sim::violation(format!("C08/wrong-transition/{tag}"), format!("event {} n{} {:?}: {w}", v.ev, r.node, r.op));
        }
        prev = got;
    }
    for (i, r) in recs.iter().enumerate() {
        let lost_response = events.iter().any(|e| e.node == r.node && e.ev > r.inv && e.ev < r.ret && e.op == "PUT" && e.fault == Fault::FailAfter && e.ok);
        let may_be_noop = matches!(r.op, Op::Scavenge | Op::Complete { .. } | Op::Fail { .. });
        if r.ok && owned[i] > 1 {
            sim::violation("C08/op-owns-many-versions", format!("{:?} owns {} versions", r.op, owned[i]));
        }
        if r.ok && owned[i] == 0 && !may_be_noop {
            sim::violation("C08/success-without-version", format!("{:?} by n{} returned Ok but wrote no lease-file version", r.op, r.node));
        }
        if !r.ok && owned[i] != 0 && !(lost_response && owned[i] == 1) {
            sim::violation("C08/failure-had-effect", format!("{:?} by n{} failed ({}) but owns {} versions", r.op, r.node, r.err, owned[i]));
        }
        if let Op::Renew { .. } = r.op {
            if !r.ok && r.err.contains("not found") {
                sim::probe("reclaimed-holder-told-at-renew");
            }
            if r.ok {
                sim::probe("renew-ok");
            }
        }
        if let Op::Acquire { .. } = r.op {
            if r.ok {
                sim::probe("acquire-ok");
            } else if r.err.contains("lready leased") {
                sim::probe("acquire-rejected");
            }
        }
    }
    // probe: an acquire that reclaimed an expired lease
    let mut p: LM = LM::new();
    for v in &versions {
        if let Ok(g) = parse(v.payload.as_ref().unwrap()) {
            let t_put = epoch + v.t_ns as i64;
            if p.iter().any(|(k, l)| !g.contains_key(k) && l.status == LeaseStatus::Active && l.expires <= t_put) && g.keys().any(|k| !p.contains_key(k)) {
                sim::probe("acquire-reclaimed-expired");
            }
            p = g;
        }
    }
    sim::probe_n("lease-file-versions", versions.len() as u64);
    sim::state_sig(sim::hash_str(&format!("{:?}", prev.values().map(|l| (&l.holder, &l.chunks, &l.status)).collect::<Vec<_>>())));
}
