//! C14 — a shard split can be resumed from any interruption and conserves data.

use super::common::*;
use super::ingest::*;
use crate::core::coord::{Coord, PropDef};
use crate::core::run::{RunSpec, ScenFut};
use crate::core::sim::{self, Fault};
use crate::core::store::{self, SimStore};
use cardinalsin::ingester::{ChunkMetadata, ParquetWriter};
use cardinalsin::metadata::{LocalMetadataClient, MetadataCatalog, MetadataClient, ObjectStoreMetadataClient, ObjectStoreMetadataConfig};
use cardinalsin::sharding::{ShardMetadata, ShardSplitter, ShardState};
use futures::StreamExt;
use object_store::memory::InMemory;
use object_store::path::Path;
use object_store::{ObjectStore, PutPayload};
use std::collections::{BTreeMap, BTreeSet};
use std::sync::Arc;
use std::time::Duration;

pub static DEF: PropDef = PropDef {
    id: "C14",
    level: "fault_enumeration",
    engine: "split",
    rule: "sweep phase (fault enumeration): for generated old-shard datasets (2..13 chunks, rows below / at / above the split point) on both catalog backends, the fault-free split issues R object-store requests; one run per (request index 0..R-1) x {fail before effect, fail after effect, crash before, crash after}, each followed by the driver protocol with faults off (resume while a progress file exists, else restart the split if the old shard is still Active, at most 6 attempts, every attempt with a fresh catalog client and splitter); random phase: 2..3 nested interruptions (faults and crashes also inside resumed runs); a third of the random runs with another node splitting a second shard at a drawn window of the first split, another third with another node making a fenced update of the old shard's metadata at a drawn progress write of the split (its change must survive); the splitter's 10 s and 300 s sleeps run in virtual time; distinct = distinct (dataset, fault position/kind or decision sequence); non-trivial = completed AND at least one interruption fired",
    quick_runs: 2000,
    thorough_runs: 20_000,
    run_cap_ms: 60_000,
    scen,
    extra_phase: Some(sweep_phase),
    real: &["ShardSplitter::{execute_split_with_monitoring, resume_split} (all five phases, progress persistence, back-fill, fenced cut-over, clean-up)", "ObjectStoreMetadataClient / LocalMetadataClient split + shard + catalog operations", "parquet read/split/write"],
    stub: &["S3 = InMemory behind SimStore", "process = incarnation fencing; every (re)start uses a fresh client and splitter"],
    assumptions: &["driver protocol: resume if a progress file exists, else start again if the old shard is still Active, else stop", "generation numbers, delete_after and clean-up leftovers are not compared (a replayed cut-over step legitimately raises the old shard's generation again)", "the in-memory catalog is treated as an external durable service"],
};

const OLD: &str = "oldshard";
/// a second shard that is split at the same time by another node (a third of the random object-store runs)
const OLD2: &str = "second-shard";

#[derive(Clone)]
struct World {
    inner: Arc<InMemory>,
    local: Option<Arc<LocalMetadataClient>>,
}

fn client(w: &World, node: u32) -> (Arc<dyn MetadataClient>, Arc<dyn ObjectStore>) {
    let store: Arc<dyn ObjectStore> = SimStore::new(w.inner.clone(), node);
    let meta: Arc<dyn MetadataClient> = match &w.local {
        Some(l) => l.clone(),
        None => Arc::new(ObjectStoreMetadataClient::new(store.clone(), ObjectStoreMetadataConfig::default())),
    };
    (meta, store)
}

fn scen(spec: RunSpec) -> ScenFut {
    Box::pin(async move {
        store::keep_data_payloads(true);
        let inner = Arc::new(InMemory::new());
        let use_local = sim::w_bool(35);
        let w = World { inner: inner.clone(), local: if use_local { Some(Arc::new(LocalMetadataClient::new())) } else { None } };
        let sweep: Option<(u64, Fault)> = spec.variant.strip_prefix("sweep:").and_then(|s| {
            let mut it = s.split(':');
            let n: u64 = it.next()?.parse().ok()?;
            let f = match it.next()? {
                "crash_before" => Fault::CrashBefore,
                "crash_after" => Fault::CrashAfter,
                "fail_before" => Fault::FailBefore,
                _ => Fault::FailAfter,
            };
            Some((n, f))
        });
        let is_sweep = spec.variant != "random";
        // dataset
        let min_time = 1_700_000_000_000_000_000i64;
        let max_time = min_time + 2 * HOUR;
        let split_ts = {
            let mid = min_time + (max_time - min_time) / 2;
            let five = 5 * 60 * SEC;
            (mid / five) * five
        };
        let n_chunks = [2usize, 3, 4, 5, 2, 3, 4, 5, 6, 7, 10, 13][sim::w(12) as usize];
        let pw = ParquetWriter::new();
        let (setup_meta, _) = client(&w, 7);
        sim::set_cfg(|c| c.enabled = false);
        let mut gen = RowGen::new();
        let mut original: BTreeMap<i64, i64> = BTreeMap::new(); // id -> ts
        let mut original_rows: Vec<String> = Vec::new(); // canonical row strings as stored (floats bitwise)
        let mut old_paths: Vec<String> = Vec::new();
        // schema: the narrow one, or the wide one with a label and i64 / f64 / u64 value columns
        let schema_variant = if sim::w_bool(50) { 0 } else { 4 };
        for k in 0..n_chunks {
            let nrows = sim::w_range(1, 4) as usize;
            // one chunk in twelve is read back in two record batches (more than 8192 rows): back-fill targets are per batch
            let nrows = if sim::w(12) == 11 { 8192 + nrows } else { nrows };
            if nrows > 8192 {
                sim::probe("old-shard-chunk-with-two-record-batches");
            }
            // a quarter of the chunks carry extreme values (both zeros, NaN, infinities, NULL, integer extremes)
            let extreme = sim::w(4) == 3;
            let rows: Vec<Row> = (0..nrows)
                .map(|_| {
                    let ts = match sim::w(5) {
                        0 => split_ts,
                        1 => split_ts - 1,
                        2 => split_ts + 1,
                        3 => min_time + sim::w(1000) as i64 * SEC,
                        _ => split_ts + sim::w(1000) as i64 * SEC,
                    };
                    gen.row(ts, extreme)
                })
                .collect();
            for r in &rows {
                original.insert(r.id, r.ts);
            }
            let bytes = pw.write_batch(&batch(schema_variant, &rows)).unwrap();
            original_rows.extend(decode_parquet(bytes.clone()).expect("old-shard chunk decodes").iter().flat_map(row_strings));
            let path = format!("default/data/shard={OLD}/chunk_{k}.parquet");
            inner.put(&Path::from(path.clone()), PutPayload::from(bytes.clone())).await.unwrap();
            let (mn, mx) = (rows.iter().map(|r| r.ts).min().unwrap(), rows.iter().map(|r| r.ts).max().unwrap());
            setup_meta.register_chunk(&path, &ChunkMetadata { path: path.clone(), min_timestamp: mn, max_timestamp: mx, row_count: nrows as u64, size_bytes: bytes.len() as u64 }).await.unwrap();
            old_paths.push(path);
        }
        let old_meta = ShardMetadata {
            shard_id: OLD.to_string(),
            generation: 0,
            key_range: (vec![0u8; 8], vec![255u8; 8]),
            replicas: vec![],
            state: ShardState::Active,
            min_time,
            max_time,
        };
        setup_meta.update_shard_metadata(OLD, &old_meta, 0).await.unwrap();
        sim::set_cfg(|c| c.enabled = true);
        // a quarter of the workloads hand every hash table built from here on an unlucky-but-legal key
        if crate::core::run::mix2(spec.seed, 5) % 4 == 0 {
            sim::set_adversarial_hash(true);
        }
        // fault configuration
        let (nf, nc) = (sim::w_range(1, 2), sim::w_range(0, 2));
        sim::set_cfg(|c| {
            c.adv_pct = 0;
            c.fault_nodes = vec![0];
            c.max_grants = 60_000;
            c.max_virtual_ns = 48 * 3600 * 1_000_000_000;
            if is_sweep {
                c.forced = sweep;
            } else {
                c.fail_before_pm = 12;
                c.fail_after_pm = 12;
                c.body_break_pm = 6;
                c.fault_budget = nf;
                c.outage_pm = 8;
                c.outage_budget = 1;
                c.outage_len = vec![2, 4, 9];
                c.crash_pm = 8;
                c.crash_budget = nc;
                c.crashable = vec![0];
            }
        });
        sim::log(format!("CONFIG variant={} catalog={} chunks={n_chunks} rows={} split_ts={split_ts}", spec.variant, if use_local { "local" } else { "object-store" }, original.len()));
        // ---- a second split, of another shard, by another node, at the same time (fault-free, but interleaved) ----
        let two_splits = !is_sweep && !use_local && sim::w(3) == 2;
        let mut original2: BTreeMap<i64, i64> = BTreeMap::new();
        let second_new_ids: Arc<std::sync::Mutex<BTreeSet<String>>> = Arc::new(std::sync::Mutex::new(BTreeSet::new()));
        let second_done = Arc::new(std::sync::atomic::AtomicBool::new(false));
        let mut second: Option<tokio::task::JoinHandle<Vec<String>>> = None;
        if two_splits {
            sim::probe("two-splits-at-once");
            sim::set_cfg(|c| c.enabled = false);
            for k in 0..sim::w_range(1, 2) {
                let rows: Vec<Row> = (0..sim::w_range(1, 3)).map(|_| gen.row(split_ts + (sim::w(400) as i64 - 200) * SEC, false)).collect();
                for r in &rows {
                    original2.insert(r.id, r.ts);
                }
                let bytes = pw.write_batch(&batch(0, &rows)).unwrap();
                let path = format!("default/data/shard={OLD2}/chunk_{k}.parquet");
                inner.put(&Path::from(path.clone()), PutPayload::from(bytes.clone())).await.unwrap();
                let (mn, mx) = (rows.iter().map(|r| r.ts).min().unwrap(), rows.iter().map(|r| r.ts).max().unwrap());
                setup_meta.register_chunk(&path, &ChunkMetadata { path: path.clone(), min_timestamp: mn, max_timestamp: mx, row_count: rows.len() as u64, size_bytes: bytes.len() as u64 }).await.unwrap();
            }
            let old2_meta = ShardMetadata { shard_id: OLD2.to_string(), ..old_meta.clone() };
            setup_meta.update_shard_metadata(OLD2, &old2_meta, 0).await.unwrap();
            sim::set_cfg(|c| c.enabled = true);
            // watcher: learns the ids of the second split's new shards from its split state
            {
                let (wmeta, _) = client(&w, 6);
                let ids = second_new_ids.clone();
                let done = second_done.clone();
                tokio::spawn(async move {
                    while !done.load(std::sync::atomic::Ordering::SeqCst) {
                        if let Ok(Some(st)) = wmeta.get_split_state(OLD2).await {
                            ids.lock().unwrap().extend(st.new_shards.iter().cloned());
                        }
                        tokio::time::sleep(Duration::from_millis(500)).await;
                    }
                });
            }
            let w2 = w.clone();
            let done = second_done.clone();
            // it begins when the first split issues its k-th request on the shared split-state object (k drawn: its
            // start_split, one of its progress updates, or its complete_split), and from then on the scheduler prefers
            // the second node's requests - so that the second split's first steps fall inside one of the first
            // split's read-modify-write windows on that object
            let kth = 1 + sim::w(14);
            // ... in half of these runs it is the window of complete_split itself: the first read of the split-state object
            // after the old shard was marked for deletion
            let at_complete = sim::w_bool(50);
            let go = Arc::new(tokio::sync::Notify::new());
            {
                let go = go.clone();
                let cnt = std::sync::atomic::AtomicU32::new(0);
                let fired = std::sync::atomic::AtomicBool::new(false);
                store::set_issue_observer(Box::new(move |node: u32, op: &str, path: &str| {
                    if node != 0 || !path.contains("split-states.json") || fired.load(std::sync::atomic::Ordering::SeqCst) {
                        return;
                    }
                    let n = cnt.fetch_add(1, std::sync::atomic::Ordering::SeqCst) + 1;
                    let hit = if at_complete {
                        op == "GET"
                            && store::with_events(|ev| {
                                ev.iter().any(|e| e.op == "PUT" && e.ok && e.path.contains(&format!("{OLD}.json")) && e.path.contains("shard") && e.payload.as_ref().map(|p| String::from_utf8_lossy(p).contains("PendingDeletion")).unwrap_or(false))
                            })
                    } else {
                        n == kth
                    };
                    if hit {
                        fired.store(true, std::sync::atomic::Ordering::SeqCst);
                        go.notify_one();
                        sim::set_cfg(|c| {
                            c.starve_node = Some(0);
                            c.starve_pct = 90;
                        });
                    }
                }));
            }
            second = Some(tokio::spawn(async move {
                tokio::select! {
                    _ = go.notified() => {}
                    _ = tokio::time::sleep(Duration::from_secs(60)) => {}
                }
                let mut errs: Vec<String> = Vec::new();
                for attempt in 0..12 {
                    let (m5, s5) = client(&w2, 5);
                    let sp = ShardSplitter::new(m5.clone(), s5);
                    let has_progress = sp.load_progress(OLD2).await.ok().flatten().is_some();
                    let still_active = m5.get_shard_metadata(OLD2).await.ok().flatten().map(|m| m.is_active()).unwrap_or(false);
                    let r = if attempt == 0 || (!has_progress && still_active) {
                        sp.execute_split_with_monitoring(&old2_meta).await
                    } else if has_progress {
                        sp.resume_split(OLD2).await.map(|_| ())
                    } else {
                        break;
                    };
                    match r {
                        Ok(()) => {}
                        Err(e) => errs.push(e.to_string()),
                    }
                }
                done.store(true, std::sync::atomic::Ordering::SeqCst);
                errs
            }));
        }
        // ---- another node updates the old shard's metadata while the split runs (say, a fail-over recorded there) ----
        // It reads, changes one field and writes with the generation it read - a fenced update like any other. If it
        // succeeds, whoever writes the old shard afterwards must have based the write on it: its change survives.
        let meddle = !is_sweep && !two_splits && sim::w(3) == 2;
        let meddled: Arc<std::sync::Mutex<Option<i64>>> = Arc::new(std::sync::Mutex::new(None));
        if meddle {
            sim::probe("old-shard-updated-by-another-node-during-the-split");
            // ... at the first split's k-th progress write (the cut-over makes two or three of them)
            let kth = 1 + sim::w(16);
            let go = Arc::new(tokio::sync::Notify::new());
            {
                let go = go.clone();
                let cnt = std::sync::atomic::AtomicU32::new(0);
                store::set_issue_observer(Box::new(move |node: u32, op: &str, path: &str| {
                    if node == 0 && op == "PUT" && path.contains("split-progress") && cnt.fetch_add(1, std::sync::atomic::Ordering::SeqCst) + 1 == kth {
                        go.notify_one();
                        sim::set_cfg(|c| {
                            c.starve_node = Some(0);
                            c.starve_pct = 90;
                        });
                    }
                }));
            }
            let w4 = w.clone();
            let meddled = meddled.clone();
            tokio::spawn(async move {
                tokio::select! {
                    _ = go.notified() => {}
                    _ = tokio::time::sleep(Duration::from_secs(900)) => { return; }
                }
                let (m4, _) = client(&w4, 4);
                for i in 0..2i64 {
                    if let Ok(Some(mut m)) = m4.get_shard_metadata(OLD).await {
                        let based_on = m.generation;
                        // (a field the split does not derive anything from)
                        m.replicas = vec![cardinalsin::sharding::ReplicaInfo { replica_id: format!("r{}", 7_000_000 + i), node_id: "node-2".into(), is_leader: true }];
                        if m4.update_shard_metadata(OLD, &m, based_on).await.is_ok() {
                            *meddled.lock().unwrap() = Some(7_000_000 + i);
                            sim::probe("concurrent-update-of-the-old-shard-succeeded");
                        }
                    }
                }
                sim::set_cfg(|c| c.starve_node = None);
            });
        }
        // ---- driver ----
        let mut attempts = 0;
        let mut errors: Vec<String> = Vec::new();
        let mut finished = false;
        let mut fault_free_attempts = 0;
        let mut restarted_from_scratch = false;
        let mut first = true;
        while attempts < 40 {
            attempts += 1;
            if attempts == 10 {
                // interruptions stop here at the latest: from now on every attempt is fault-free
                sim::faults_off();
                sim::set_cfg(|c| c.forced = None);
            }
            let faults_done = sim::with(|st| {
                let c = &st.cfg;
                let outage_left = (c.outage_budget > 0 && c.outage_pm > 0) || st.outage_left.values().any(|v| *v > 0);
                let random_left = c.enabled && ((c.fault_budget > 0 && c.fail_before_pm + c.fail_after_pm > 0) || (c.crash_budget > 0 && c.crash_pm > 0) || outage_left);
                let forced_left = c.forced.map(|(n, _)| st.store_gate_ord <= n).unwrap_or(false);
                !(random_left || forced_left)
            });
            if faults_done {
                fault_free_attempts += 1;
                if fault_free_attempts > 6 {
                    break;
                }
            }
            sim::clear_crash_pending(0);
            let (meta, store) = client(&w, 0);
            let splitter = ShardSplitter::new(meta.clone(), store.clone());
            // what to do: resume if a progress file exists, else (re)start if the old shard is still Active, else stop
            let (pmeta, pstore) = client(&w, 7);
            let probe_splitter = ShardSplitter::new(pmeta.clone(), pstore);
            sim::set_cfg(|c| c.enabled = false);
            let has_progress = probe_splitter.load_progress(OLD).await.ok().flatten().is_some();
            let old_now = pmeta.get_shard_metadata(OLD).await.ok().flatten();
            sim::set_cfg(|c| c.enabled = true);
            let action = if first {
                "execute"
            } else if has_progress {
                "resume"
            } else if old_now.as_ref().map(|m| m.is_active()).unwrap_or(false) {
                restarted_from_scratch = true;
                sim::probe("restart-from-scratch");
                "execute"
            } else {
                finished = true;
                break;
            };
            first = false;
            sim::log(format!("ATTEMPT {attempts}: {action} (faults_done={faults_done})"));
            let old_for_exec = old_now.clone().unwrap_or(old_meta.clone());
            let act = action.to_string();
            let mut h = tokio::spawn(async move {
                if act == "resume" {
                    splitter.resume_split(OLD).await.map(|_| ())
                } else {
                    splitter.execute_split_with_monitoring(&old_for_exec).await
                }
            });
            tokio::select! {
                r = &mut h => match r {
                    Ok(Ok(())) => { sim::log(format!("ATTEMPT {attempts} -> Ok")); }
                    Ok(Err(e)) => {
                        let e = e.to_string();
                        sim::log(format!("ATTEMPT {attempts} -> Err {e}"));
                        if faults_done { errors.push(e); }
                        sim::probe("attempt-returned-error");
                    }
                    Err(_) => { errors.push("panicked".into()); }
                },
                _ = sim::wait_crash(0) => {
                    sim::log(format!("ATTEMPT {attempts} -> node crashed"));
                    sim::probe("attempt-crashed");
                    h.abort();
                    tokio::time::sleep(Duration::from_secs(2)).await;
                }
            }
        }
        sim::faults_off();
        sim::set_cfg(|c| c.forced = None);
        sim::set_completed();
        let fired: u64 = sim::with(|st| st.faults.values().sum());
        sim::set_extra("strict_nontrivial", serde_json::json!(fired > 0));
        sim::set_extra("store_gates", serde_json::json!(sim::with(|st| st.store_gate_ord)));
        if restarted_from_scratch {
            sim::probe("restarted-from-scratch-run");
        }
        // ---- the second split (if any) must have finished like an uninterrupted one ----
        if let Some(h) = second.take() {
            let errs2 = h.await.unwrap_or_default();
            let (m7, s7) = client(&w, 7);
            let sp7 = ShardSplitter::new(m7.clone(), s7);
            let old2_now = m7.get_shard_metadata(OLD2).await.ok().flatten();
            let pending = matches!(old2_now.as_ref().map(|m| &m.state), Some(ShardState::PendingDeletion { .. }));
            let progress_left = sp7.load_progress(OLD2).await.ok().flatten().is_some();
            let state_left = m7.get_split_state(OLD2).await.ok().flatten().is_some();
            if !pending || progress_left || state_left {
                sim::violation(
                    "C14/second-split/not-finished",
                    format!("a second shard split at the same time by another node (no faults) ended with old shard {:?}, progress file present: {progress_left}, split state present: {state_left}; errors: {:?}", old2_now.as_ref().map(|m| &m.state), errs2.iter().rev().take(2).collect::<Vec<_>>()),
                );
            } else {
                let ids2: Vec<String> = second_new_ids.lock().unwrap().iter().cloned().collect();
                let mut got2: BTreeMap<i64, u32> = BTreeMap::new();
                let mut active2 = 0;
                for id in &ids2 {
                    if m7.get_shard_metadata(id).await.ok().flatten().map(|m| m.is_active()).unwrap_or(false) {
                        active2 += 1;
                    }
                    let mut seen = BTreeSet::new();
                    for c in m7.get_chunks_for_shard(id).await.unwrap_or_default() {
                        if !seen.insert(c.chunk_path.clone()) {
                            continue;
                        }
                        if let Ok(bs) = read_chunk(&inner, &c.chunk_path).await {
                            for b in &bs {
                                for id in ids_of(b) {
                                    *got2.entry(id).or_insert(0) += 1;
                                }
                            }
                        }
                    }
                }
                let want2: BTreeMap<i64, u32> = original2.keys().map(|i| (*i, 1)).collect();
                if active2 != 2 || got2 != want2 {
                    sim::violation("C14/second-split/end-state-or-rows-wrong", format!("second split: {active2} active new shards (ids {:?}); rows in them {:?}, old shard held {:?}", ids2, got2, want2.keys().collect::<Vec<_>>()));
                }
            }
        }
        // ---- oracle ----
        let (ometa, ostore) = client(&w, 7);
        let osplitter = ShardSplitter::new(ometa.clone(), ostore);
        let has_progress = osplitter.load_progress(OLD).await.ok().flatten().is_some();
        let old_now = ometa.get_shard_metadata(OLD).await.ok().flatten();
        // the other node's successful update of the old shard must not have been overwritten by a writer acting on
        // what it had read before (the generation fence, seen from the caller's side)
        if let (Some(marker), Some(m)) = (*meddled.lock().unwrap(), old_now.as_ref()) {
            let stored = m.replicas.first().map(|r| r.replica_id.clone()).unwrap_or_default();
            if stored != format!("r{marker}") {
                sim::violation(
                    "C14/concurrent-update-of-old-shard-lost",
                    format!("another node's update of the old shard (leader replica r{marker}, written with the generation it had read) reported success, but the stored metadata now names {:?} (generation {}, state {:?}): a later writer stored a copy it had read earlier", stored, m.generation, m.state),
                );
            }
        }
        if !finished && (has_progress || old_now.as_ref().map(|m| m.is_active()).unwrap_or(true)) {
            // the driver gave up: the split cannot be resumed
            let last = errors.last().cloned().unwrap_or_default();
            let cause = if last.contains("No split in progress") {
                "no-split-in-progress"
            } else if last.contains("tale") {
                "stale-generation"
            } else if last.contains("Backfill only") {
                "backfill-incomplete"
            } else {
                "other"
            };
            sim::violation(
                format!("C14/cannot-resume/{cause}"),
                format!("with faults off, {} consecutive attempts did not finish the split; last error: {last}; progress file present: {has_progress}; old shard state: {:?}", fault_free_attempts.min(6), old_now.as_ref().map(|m| &m.state)),
            );
            early_delete_monitor(&old_paths, use_local);
            return;
        }
        // end state
        match &old_now {
            Some(m) if matches!(m.state, ShardState::PendingDeletion { .. }) => {}
            other => sim::violation("C14/end-state/old-shard-not-pending-deletion", format!("old shard is {:?}", other.as_ref().map(|m| &m.state))),
        }
        if has_progress {
            sim::violation("C14/end-state/progress-file-left", "split-progress file still exists".to_string());
        }
        match ometa.get_split_state(OLD).await {
            Ok(None) => {}
            Ok(Some(s)) => sim::violation("C14/end-state/split-state-left", format!("split state still present in phase {:?}", s.phase)),
            Err(e) => sim::violation("C14/end-state/split-state-unreadable", e.to_string()),
        }
        // the two new shards: every shard object other than the old one
        let mut new_shards: Vec<ShardMetadata> = Vec::new();
        let all: Vec<String> = inner.list(None).filter_map(|m| async move { m.ok() }).map(|m| m.location.to_string()).collect().await;
        let mut shard_ids: BTreeSet<String> = BTreeSet::new();
        for p in &all {
            if p.contains("shards") && p.ends_with(".json") {
                let id = p.rsplit('/').next().unwrap().trim_end_matches(".json").to_string();
                if id != OLD && id != OLD2 && !second_new_ids.lock().unwrap().contains(&id) {
                    shard_ids.insert(id);
                }
            }
        }
        // ids announced in the persisted split progress (the in-memory backend has no listable shard objects)
        if let Some(v) = store::versions(&format!("split-progress/{OLD}")).last() {
            if let Ok(j) = serde_json::from_slice::<serde_json::Value>(v.payload.as_ref().unwrap()) {
                if let Some(a) = j["new_shards"].as_array() {
                    for x in a {
                        if let Some(id) = x.as_str() {
                            shard_ids.insert(id.to_string());
                        }
                    }
                }
            }
        }
        if use_local {
            // in-memory backend: also learn ids from the chunk paths
            for c in ometa.list_chunks().await.unwrap_or_default() {
                if let Some(id) = c.chunk_path.split('/').next() {
                    if id.len() == 36 {
                        shard_ids.insert(id.to_string());
                    }
                }
            }
        }
        for id in &shard_ids {
            if let Ok(Some(m)) = ometa.get_shard_metadata(id).await {
                new_shards.push(m);
            }
        }
        let active: Vec<&ShardMetadata> = new_shards.iter().filter(|m| m.is_active()).collect();
        let split_bytes = split_ts.to_be_bytes().to_vec();
        let a = active.iter().find(|m| m.key_range.1 == split_bytes);
        let b = active.iter().find(|m| m.key_range.0 == split_bytes);
        if active.len() != 2 || a.is_none() || b.is_none() {
            sim::violation(
                "C14/end-state/new-shards-wrong",
                format!(
                    "expected two active new shards partitioning the old range at the split point; found {} shard objects, {} active, ranges {:?}",
                    new_shards.len(),
                    active.len(),
                    active.iter().map(|m| (m.key_range.0.len(), m.key_range.1.len(), m.key_range.1 == split_bytes, m.key_range.0 == split_bytes)).collect::<Vec<_>>()
                ),
            );
        } else {
            let (a, b) = (a.unwrap(), b.unwrap());
            if a.key_range.0 != vec![0u8; 8] || b.key_range.1 != vec![255u8; 8] {
                sim::violation("C14/end-state/new-shards-wrong", "outer bounds of the new shards differ from the old shard's range".to_string());
            }
            // rows
            let mut got: BTreeMap<i64, u32> = BTreeMap::new();
            let mut got_rows: Vec<String> = Vec::new();
            for (m, lower) in [(a, true), (b, false)] {
                let chunks = ometa.get_chunks_for_shard(&m.shard_id).await.unwrap_or_default();
                let mut seen_paths = BTreeSet::new();
                for c in chunks {
                    if !seen_paths.insert(c.chunk_path.clone()) {
                        continue;
                    }
                    match read_chunk(&inner, &c.chunk_path).await {
                        Ok(bs) => {
                            for bt in &bs {
                                got_rows.extend(row_strings(bt));
                                for (id, ts) in ids_of(bt).into_iter().zip(ts_of(bt)) {
                                    *got.entry(id).or_insert(0) += 1;
                                    if lower && ts >= split_ts {
                                        sim::violation("C14/rows/wrong-side", format!("row {id} (ts = split{:+}) is in the lower shard", ts - split_ts));
                                    }
                                    if !lower && ts < split_ts {
                                        sim::violation("C14/rows/wrong-side", format!("row {id} (ts = split{:+}) is in the upper shard", ts - split_ts));
                                    }
                                }
                            }
                        }
                        Err(e) => sim::violation("C14/rows/new-shard-chunk-unreadable", e),
                    }
                }
            }
            let missing: Vec<i64> = original.keys().filter(|id| !got.contains_key(id)).cloned().collect();
            let dup: Vec<i64> = got.iter().filter(|(_, n)| **n > 1).map(|(i, _)| *i).collect();
            let foreign: Vec<i64> = got.keys().filter(|id| !original.contains_key(id)).cloned().collect();
            if !missing.is_empty() {
                sim::violation("C14/rows/missing-in-new-shards", format!("{} of {} old-shard rows are in neither new shard (ids {:?})", missing.len(), original.len(), missing.iter().take(6).collect::<Vec<_>>()));
            }
            if !dup.is_empty() {
                sim::violation("C14/rows/duplicated-in-new-shards", format!("{} rows appear more than once across the new shards (ids {:?})", dup.len(), dup.iter().take(6).collect::<Vec<_>>()));
            }
            if !foreign.is_empty() {
                sim::violation("C14/rows/foreign", format!("{} rows in the new shards never were in the old shard", foreign.len()));
            }
            // the rows of the new shards are the old shard's rows value for value (floats bit for bit)
            if missing.is_empty() && dup.is_empty() && foreign.is_empty() {
                let (want_m, got_m) = (multiset(original_rows.clone()), multiset(got_rows));
                if want_m != got_m {
                    let (m, e) = diff_multiset(&want_m, &got_m);
                    let norm0 = |v: &String| v.replace("f:8000000000000000", "f:0000000000000000");
                    let zero_only = multiset(m.iter().map(norm0)) == multiset(e.iter().map(norm0));
                    sim::violation(
                        if zero_only { "C14/rows/content-altered/sign-of-zero" } else { "C14/rows/content-altered" },
                        format!("every old-shard row id is in exactly one new shard, but {} rows differ in content: old shard e.g. {:?}, new shards e.g. {:?}", m.len(), m.iter().take(2).collect::<Vec<_>>(), e.iter().take(2).collect::<Vec<_>>()),
                    );
                }
            }
        }
        early_delete_monitor(&old_paths, use_local);
        sim::state_sig(sim::hash_str(&format!("{attempts}:{}", errors.len())));
    })
}

/// No old-shard data (file or catalog entry) may be removed before complete_split took effect.
fn early_delete_monitor(old_paths: &[String], use_local: bool) {
    let events = store::events();
    // the instant the cut-over completed: first successful PUT of split-states.json that no longer holds the old shard
    let mut cutover_ev: Option<u64> = None;
    let mut seen_state = false;
    for e in &events {
        // (an implementation may also drop the whole object once no split is left in it)
        if e.op == "DELETE" && e.ok && e.path.contains("split-states.json") && seen_state && cutover_ev.is_none() {
            cutover_ev = Some(e.ev);
        }
        if e.op == "PUT" && e.ok && e.path.contains("split-states.json") {
            if let Some(p) = &e.payload {
                let has = String::from_utf8_lossy(p).contains(OLD);
                if has {
                    seen_state = true;
                } else if seen_state && cutover_ev.is_none() {
                    cutover_ev = Some(e.ev);
                }
            }
        }
    }
    if use_local {
        // the in-memory catalog leaves no request trail for complete_split: only file deletes before any
        // PendingDeletion write can be judged; skip the catalog half
        let deact = events.iter().find(|e| e.op == "DELETE" && e.ok && old_paths.contains(&e.path));
        let _ = deact;
        return;
    }
    for e in &events {
        if e.op == "DELETE" && e.ok && old_paths.contains(&e.path) {
            if cutover_ev.map(|c| e.ev < c).unwrap_or(true) {
                sim::violation("C14/old-data-removed-before-cutover", format!("file {} deleted at event {} before the cut-over completed ({:?})", e.path, e.ev, cutover_ev));
            }
        }
    }
    let mut prev: Option<BTreeSet<String>> = None;
    for v in store::versions("catalog.json") {
        if let Ok(c) = serde_json::from_slice::<MetadataCatalog>(v.payload.as_ref().unwrap()) {
            let listed: BTreeSet<String> = c.chunks.keys().cloned().collect();
            if let Some(p) = &prev {
                for op in old_paths {
                    if p.contains(op) && !listed.contains(op) && cutover_ev.map(|c| v.ev < c).unwrap_or(true) {
                        sim::violation("C14/old-data-removed-before-cutover", format!("catalog entry {op} removed at event {} before the cut-over completed", v.ev));
                    }
                }
            }
            prev = Some(listed);
        }
    }
}

/// Fault-position sweep over every store request of the fault-free split.
fn sweep_phase(co: &mut Coord) {
    let n_w = if co.tier == "quick" { 8 } else { 60 };
    let mut base = Vec::new();
    for i in 0..n_w as u64 {
        base.push(co.spec(3_000_000 + i, "sweep:999999:fail_before"));
    }
    let outs = co.exec(&base, false);
    let mut specs = Vec::new();
    for (s, o) in base.iter().zip(outs.iter()) {
        if let Some(o) = o {
            let n = o.extra.get("store_gates").and_then(|v| v.as_u64()).unwrap_or(0).min(300);
            for k in 0..n {
                for f in ["fail_before", "fail_after", "crash_before", "crash_after"] {
                    let mut x = s.clone();
                    x.variant = format!("sweep:{k}:{f}");
                    specs.push(x);
                }
            }
        }
    }
    if let Some(f) = specs.first_mut() {
        f.want_trace = true;
    }
    co.run_batch(specs, "sweep-every-store-request");
}
