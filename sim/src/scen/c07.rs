//! C07 — time-range chunk lookup is exact, on both metadata backends.

use super::common::*;
use crate::core::coord::PropDef;
use crate::core::run::{RunSpec, ScenFut};
use crate::core::sim;
use crate::core::store::SimStore;
use cardinalsin::metadata::{LocalMetadataClient, MetadataClient, ObjectStoreMetadataClient, ObjectStoreMetadataConfig, TimeRange};
use object_store::memory::InMemory;
use object_store::ObjectStore;
use std::collections::BTreeMap;
use std::sync::Arc;
use std::time::Duration;

pub static DEF: PropDef = PropDef {
    id: "C07",
    level: "exploration",
    engine: "meta-cas",
    rule: "one run = one generated history of 6..25 register (incl. re-registration of a path with another interval) / delete / complete_compaction operations applied identically to a real LocalMetadataClient and a real ObjectStoreMetadataClient, with 3..6 range lookups after every operation on both backends and on a second object-store client whose 60 s catalog cache is aged in virtual time; intervals and ranges drawn from hour boundaries +-1 ns, negative timestamps, zero-length, multi-day and (rarely) multi-year spans, chunks at the very end / start of the representable time line, ranges open at either end (i64::MIN / i64::MAX) (thorough tier: 8 extra runs whose first chunk reaches from the epoch to now), inverted ranges; half of the runs inject store request failures into mutations (failed mutation must leave lookups exact); distinct = distinct hash of the operation/lookup history; non-trivial = completed AND the history contained a multi-bucket chunk, a boundary-exact touch or a re-registration",
    quick_runs: 15000,
    thorough_runs: 200_000,
    run_cap_ms: 240_000,
    scen,
    extra_phase: Some(decades_phase),
    real: &["LocalMetadataClient", "ObjectStoreMetadataClient (catalog cache TTL, time index)", "virtual clock ages the cache"],
    stub: &["S3 = InMemory behind SimStore"],
    assumptions: &["single writer per history (the statement is about histories, concurrency is C02)"],
};

fn pick_ts() -> i64 {
    // around hour boundaries, negative, zero
    let base_h = [-3i64, -1, 0, 1, 2, 5, 26, 472_222, 9_590][sim::w(9) as usize];
    let off = [0i64, 1, -1, HOUR / 2, HOUR - 1, 17][sim::w(6) as usize];
    base_h * HOUR + off
}

fn scen(spec: RunSpec) -> ScenFut {
    let _spec = spec.clone();
    Box::pin(async move {
        let inner = Arc::new(InMemory::new());
        let faults = sim::w_bool(50);
        if faults {
            let b = 1 + sim::w(3);
            sim::set_cfg(|c| {
                c.fail_before_pm = 60;
                c.fail_after_pm = 60;
                c.fault_budget = b;
                c.fault_nodes = vec![0];
            });
        }
        sim::set_cfg(|c| c.adv_pct = 0);
        let local = LocalMetadataClient::new();
        let store: Arc<dyn ObjectStore> = SimStore::new(inner.clone(), 0);
        let os = ObjectStoreMetadataClient::new(store, ObjectStoreMetadataConfig::default());
        let store_b: Arc<dyn ObjectStore> = SimStore::new(inner.clone(), 1);
        let os_b = ObjectStoreMetadataClient::new(store_b, ObjectStoreMetadataConfig::default());
        let mut model: BTreeMap<String, (i64, i64)> = BTreeMap::new();
        let npaths = sim::w_range(2, 6);
        // thorough-only phase: the first chunk reaches from the epoch to now (a sample with a zero timestamp flushed
        // together with current ones): some 470 000 hour buckets, so such a run costs seconds per catalog write
        let decades = spec.variant == "decades";
        let nops = if decades { sim::w_range(3, 6) } else { sim::w_range(6, 25) };
        let mut hist = String::new();
        let mut interesting = false;
        for step in 0..nops {
            let kind = if decades && step == 0 { 0 } else { sim::w(10) };
            let p = format!("data/p{}.parquet", sim::w(npaths));
            match kind {
                0..=5 => {
                    let a = pick_ts();
                    let span = [0i64, 1, HOUR - 1, HOUR, 2 * HOUR + 5, 30 * HOUR][sim::w(6) as usize];
                    // now and then a chunk of more than a year (one sample with a zero timestamp among current ones makes such a chunk)
                    let span = if sim::w(150) == 149 {
                        sim::probe("chunk-spans-more-than-a-year");
                        400 * 24 * HOUR
                    } else {
                        span
                    };
                    let (min, max) = if !decades && sim::w(60) == 59 {
                        // a chunk at the very end (or start) of the representable time line (sentinel timestamps)
                        sim::probe("chunk-at-the-end-of-the-time-line");
                        [(i64::MAX - 10, i64::MAX), (i64::MAX - HOUR - 5, i64::MAX - 1), (i64::MIN, i64::MIN + 10)][sim::w(3) as usize]
                    } else if decades && step == 0 {
                        sim::probe("chunk-spans-decades");
                        (sim::w(3) as i64, sim::EPOCH_NS as i64 + sim::w(3) as i64 * HOUR)
                    } else {
                        (a, a + span)
                    };
                    if model.contains_key(&p) {
                        sim::probe("re-registration");
                        interesting = true;
                    }
                    if bucket(max) - bucket(min) >= 2 * HOUR {
                        sim::probe("chunk-spans-3-buckets");
                        interesting = true;
                    }
                    if min < 0 {
                        sim::probe("negative-timestamp");
                    }
                    sim::log(format!("OP{step} register {p} [{min},{max}]"));
                    hist.push_str(&format!("R{p}{min}{max};"));
                    let m = chunk_meta(&p, min, max, 5, 50);
                    local.register_chunk(&p, &m).await.expect("local register");
                    match os.register_chunk(&p, &m).await {
                        Ok(()) => {
                            model.insert(p.clone(), (min, max));
                        }
                        Err(e) => {
                            // failed mutation: resynchronise the in-memory backend with what the store really holds
                            sim::log(format!("os register failed: {e}"));
                            resync(&inner, &local, &mut model).await;
                        }
                    }
                }
                6 | 7 => {
                    sim::log(format!("OP{step} delete {p}"));
                    hist.push_str(&format!("D{p};"));
                    local.delete_chunk(&p).await.expect("local delete");
                    match os.delete_chunk(&p).await {
                        Ok(()) => {
                            model.remove(&p);
                        }
                        Err(e) => {
                            sim::log(format!("os delete failed: {e}"));
                            resync(&inner, &local, &mut model).await;
                        }
                    }
                }
                _ => {
                    // compaction completion: target must be registered (see DESIGN C07)
                    let live: Vec<String> = model.keys().cloned().collect();
                    if live.len() >= 2 {
                        let target = live[sim::w(live.len() as u32) as usize].clone();
                        let mut sources: Vec<String> = Vec::new();
                        for _ in 0..sim::w_range(1, 2) {
                            let s = live[sim::w(live.len() as u32) as usize].clone();
                            if s != target && !sources.contains(&s) {
                                sources.push(s);
                            }
                        }
                        if sim::w(5) == 4 {
                            sources.push("data/never-registered.parquet".into());
                        }
                        sim::log(format!("OP{step} complete {:?} -> {target}", sources));
                        hist.push_str(&format!("C{:?}{target};", sources));
                        local.complete_compaction(&sources, &target).await.expect("local complete");
                        match os.complete_compaction(&sources, &target).await {
                            Ok(()) => {
                                for s in &sources {
                                    model.remove(s);
                                }
                            }
                            Err(e) => {
                                sim::log(format!("os complete failed: {e}"));
                                resync(&inner, &local, &mut model).await;
                            }
                        }
                    }
                }
            }
            // lookups are fault-free: an injected read error is a legitimate failure, not a wrong answer
            sim::set_cfg(|c| c.enabled = false);
            let aged = sim::w(3) == 0;
            if aged {
                tokio::time::sleep(Duration::from_secs(61)).await;
            }
            let nq = sim::w_range(3, 6);
            for _ in 0..nq {
                let a = pick_ts();
                let len = [0i64, 1, -1, HOUR - 1, HOUR, 3 * HOUR, -2 * HOUR, 40 * HOUR][sim::w(8) as usize];
                let (start, end) = (a, a + len);
                // open-ended ranges are written with the extreme values ("everything since a", "everything up to a")
                let (start, end) = match sim::w(14) {
                    12 => {
                        sim::probe("range-open-at-the-end(i64::MAX)");
                        (a, i64::MAX)
                    }
                    13 => {
                        sim::probe("range-open-at-the-start(i64::MIN)");
                        (i64::MIN, a)
                    }
                    _ => (start, end),
                };
                if start > end {
                    sim::probe("inverted-range");
                }
                let want: Vec<String> = model.iter().filter(|(_, (mn, mx))| start <= end && *mn <= end && *mx >= start).map(|(p, _)| p.clone()).collect();
                if model.values().any(|(mn, mx)| *mx == start || *mn == end) && start <= end {
                    sim::probe("boundary-exact-touch");
                    interesting = true;
                }
                hist.push_str(&format!("Q{start},{end};"));
                let range = TimeRange::new(start, end);
                let got_l = sorted(local.get_chunks(range).await);
                let got_o = sorted(os.get_chunks(range).await);
                cmp("local", start, end, &want, &got_l);
                cmp("object-store", start, end, &want, &got_o);
                if aged {
                    let got_b = sorted(os_b.get_chunks(range).await);
                    cmp("object-store(second client, cache expired)", start, end, &want, &got_b);
                }
            }
            // list / get_chunk
            let want_all: Vec<String> = model.keys().cloned().collect();
            let l = list_sorted(&local).await.unwrap_or_default();
            let o = list_sorted(&os).await.unwrap_or_default();
            if l != want_all {
                sim::violation("C07/list-differs/local", format!("list_chunks: want {:?} got {:?}", want_all, l));
            }
            if o != want_all {
                sim::violation("C07/list-differs/object-store", format!("list_chunks: want {:?} got {:?}", want_all, o));
            }
            for p in 0..npaths {
                let p = format!("data/p{p}.parquet");
                let want = model.get(&p).cloned();
                let gl = local.get_chunk(&p).await.ok().flatten().map(|m| (m.min_timestamp, m.max_timestamp));
                let go = os.get_chunk(&p).await.ok().flatten().map(|m| (m.min_timestamp, m.max_timestamp));
                if gl != want {
                    sim::violation("C07/get-chunk-differs/local", format!("{p}: want {:?} got {:?}", want, gl));
                }
                if go != want {
                    sim::violation("C07/get-chunk-differs/object-store", format!("{p}: want {:?} got {:?}", want, go));
                }
            }
            sim::set_cfg(|c| c.enabled = true);
        }
        sim::set_completed();
        if interesting {
            sim::set_nontrivial();
        }
        sim::with(|st| st.sched_sig ^= sim::hash_str(&hist));
        sim::state_sig(sim::hash_str(&format!("{:?}", model)));
    })
}

fn sorted(r: cardinalsin::Result<Vec<cardinalsin::metadata::TimeIndexEntry>>) -> Result<Vec<String>, String> {
    match r {
        Ok(v) => {
            let mut p: Vec<String> = v.into_iter().map(|e| e.chunk_path).collect();
            p.sort();
            Ok(p)
        }
        Err(e) => Err(e.to_string()),
    }
}

fn cmp(backend: &str, start: i64, end: i64, want: &[String], got: &Result<Vec<String>, String>) {
    let tag = if backend.starts_with("local") { "local" } else { "object-store" };
    match got {
        Ok(g) => {
            if g != want {
                let kind = if start > end { "inverted-range" } else { "range" };
                sim::violation(
                    format!("C07/lookup-differs/{kind}/{tag}"),
                    format!("{backend}: get_chunks([{start},{end}]) returned {:?}, exact answer is {:?}", g, want),
                );
            }
        }
        Err(e) => sim::violation(format!("C07/lookup-error/{tag}"), format!("{backend}: get_chunks([{start},{end}]) failed: {e}")),
    }
}

/// After a failed object-store mutation the two backends may legitimately differ
/// (the mutation may or may not have taken effect); rebuild model + local backend from the store.
async fn resync(inner: &Arc<InMemory>, local: &LocalMetadataClient, model: &mut BTreeMap<String, (i64, i64)>) {
    sim::probe("failed-mutation-resync");
    // let the writer's catalog cache (<= 60 s stale by design) expire before comparing again
    tokio::time::sleep(Duration::from_secs(61)).await;
    let truth = raw_client(inner);
    let cur = truth.list_chunks().await.unwrap_or_default();
    let old: Vec<String> = local.list_chunks().await.unwrap_or_default().into_iter().map(|e| e.chunk_path).collect();
    for p in old {
        let _ = local.delete_chunk(&p).await;
    }
    model.clear();
    for e in cur {
        let m = chunk_meta(&e.chunk_path, e.min_timestamp, e.max_timestamp, e.row_count, e.size_bytes);
        let _ = local.register_chunk(&e.chunk_path, &m).await;
        model.insert(e.chunk_path.clone(), (e.min_timestamp, e.max_timestamp));
    }
}

/// A chunk spanning decades: thorough tier only (a run costs many seconds).
fn decades_phase(co: &mut crate::core::coord::Coord) {
    if co.tier == "quick" {
        return;
    }
    let specs: Vec<RunSpec> = (0..8u64).map(|i| co.spec(9_000_000 + i, "decades")).collect();
    co.run_batch(specs, "chunk-from-the-epoch-to-now");
}
