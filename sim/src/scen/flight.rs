//! The query node's Flight SQL service over an in-memory transport: the real tonic server
//! (as `run_query_grpc_server` assembles it) on one half of a `tokio::io::duplex`, the real
//! Flight SQL client of arrow-flight on the other. No socket, no thread: every task runs on
//! the simulator's runtime.

use arrow_array::RecordBatch;
use arrow_flight::sql::client::FlightSqlServiceClient;
use cardinalsin::query::QueryNode;
use futures::StreamExt;
use futures::TryStreamExt;
use std::sync::Arc;
use tonic::transport::{Channel, Endpoint, Server, Uri};

pub async fn connect(qn: Arc<QueryNode>) -> Result<FlightSqlServiceClient<Channel>, String> {
    let (client_io, server_io) = tokio::io::duplex(1 << 20);
    let svc = cardinalsin::api::grpc::verif_query_flight_server(qn);
    tokio::spawn(async move {
        let incoming = futures::stream::once(async move { Ok::<_, std::io::Error>(server_io) }).chain(futures::stream::pending());
        let _ = Server::builder().add_service(svc).serve_with_incoming(incoming).await;
    });
    let mut client_io = Some(client_io);
    let channel = Endpoint::try_from("http://query-node.sim:8815")
        .map_err(|e| e.to_string())?
        .connect_with_connector(tower::service_fn(move |_: Uri| {
            let io = client_io.take();
            async move { io.map(hyper_util::rt::TokioIo::new).ok_or_else(|| std::io::Error::new(std::io::ErrorKind::Other, "the in-memory connection was already taken")) }
        }))
        .await
        .map_err(|e| format!("connect: {e}"))?;
    Ok(FlightSqlServiceClient::new(channel))
}

/// CommandStatementQuery: GetFlightInfo, then DoGet of every endpoint's ticket.
pub async fn query(c: &mut FlightSqlServiceClient<Channel>, sql: &str) -> Result<Vec<RecordBatch>, String> {
    let info = c.execute(sql.to_string(), None).await.map_err(|e| e.to_string())?;
    let mut out = Vec::new();
    for ep in info.endpoint {
        if let Some(t) = ep.ticket {
            let s = c.do_get(t).await.map_err(|e| e.to_string())?;
            let bs: Vec<RecordBatch> = s.try_collect().await.map_err(|e| e.to_string())?;
            out.extend(bs);
        }
    }
    Ok(out)
}

/// CommandStatementUpdate through DoPut (JDBC executeUpdate, ADBC execute_update).
pub async fn update(c: &mut FlightSqlServiceClient<Channel>, sql: &str) -> Result<i64, String> {
    c.execute_update(sql.to_string(), None).await.map_err(|e| e.to_string())
}

/// CreatePreparedStatement, then the prepared statement run as a query or as an update.
pub async fn prepared(c: &mut FlightSqlServiceClient<Channel>, sql: &str, as_update: bool) -> Result<String, String> {
    let mut p = c.prepare(sql.to_string(), None).await.map_err(|e| e.to_string())?;
    let r = if as_update {
        p.execute_update().await.map(|n| format!("{n} rows affected")).map_err(|e| e.to_string())
    } else {
        match p.execute().await {
            Ok(info) => {
                let mut n = 0;
                let mut err = None;
                for ep in info.endpoint {
                    if let Some(t) = ep.ticket {
                        match c.do_get(t).await {
                            Ok(s) => match s.try_collect::<Vec<RecordBatch>>().await {
                                Ok(bs) => n += bs.len(),
                                Err(e) => err = Some(e.to_string()),
                            },
                            Err(e) => err = Some(e.to_string()),
                        }
                    }
                }
                match err {
                    Some(e) => Err(e),
                    None => Ok(format!("{n} batches")),
                }
            }
            Err(e) => Err(e.to_string()),
        }
    };
    let _ = p.close().await;
    r
}

/// The node's WebSocket streaming endpoint (`GET /api/v1/stream` of the real axum router) over an in-memory
/// transport: hyper serves the router on one half of a duplex, tungstenite's client performs the upgrade on the
/// other. Returns the ids of the rows of every "data" message, in order, as they arrive.
pub async fn websocket_subscribe(router: axum::Router, sql: &str) -> Result<std::sync::Arc<std::sync::Mutex<Vec<Vec<i64>>>>, String> {
    use futures::SinkExt;
    use tokio_tungstenite::tungstenite::Message;
    let (client_io, server_io) = tokio::io::duplex(1 << 20);
    let svc = hyper_util::service::TowerToHyperService::new(router);
    tokio::spawn(async move {
        let _ = hyper::server::conn::http1::Builder::new().serve_connection(hyper_util::rt::TokioIo::new(server_io), svc).with_upgrades().await;
    });
    let (mut ws, _resp) = tokio_tungstenite::client_async("ws://query-node.sim/api/v1/stream", client_io).await.map_err(|e| format!("websocket handshake: {e}"))?;
    ws.send(Message::Text(serde_json::json!({"query": sql, "live": true}).to_string())).await.map_err(|e| e.to_string())?;
    let got: std::sync::Arc<std::sync::Mutex<Vec<Vec<i64>>>> = Default::default();
    let g2 = got.clone();
    tokio::spawn(async move {
        while let Some(Ok(m)) = ws.next().await {
            if let Message::Text(t) = m {
                let v: serde_json::Value = serde_json::from_str(&t).unwrap_or_default();
                match v["type"].as_str() {
                    Some("data") => {
                        let ids: Vec<i64> = v["data"].as_array().map(|a| a.iter().filter_map(|r| r["id"].as_i64()).collect()).unwrap_or_default();
                        g2.lock().unwrap().push(ids);
                    }
                    Some("error") => {
                        g2.lock().unwrap().push(vec![i64::MIN]);
                        crate::core::sim::log(format!("WEBSOCKET error message: {}", v["data"]));
                    }
                    _ => {}
                }
            }
        }
    });
    Ok(got)
}
