//! Seeded SQL generation over the `metrics` table, a reference evaluation on a
//! MemTable holding every ingested row, and canonical result comparison.

use super::ingest::*;
use crate::core::sim;
use arrow_array::RecordBatch;
use datafusion::datasource::MemTable;
use datafusion::prelude::{SessionConfig, SessionContext};
use std::collections::BTreeMap;
use std::sync::Arc;

/// How timestamp bounds are written in SQL.
#[derive(Debug, Clone, Copy, PartialEq)]
pub enum BoundStyle {
    /// integer nanoseconds (Int64 timestamp column)
    Int,
    /// TIMESTAMP '...' literals and now() +- interval (Timestamp(ns, UTC) column)
    Ts,
}

#[derive(Debug, Clone)]
pub enum P {
    /// timestamp <op> bound ; `rev` = bound on the left (operator mirrored so the meaning is the same)
    Cmp { op: &'static str, v: i64, rev: bool, now_rel: bool },
    Between { lo: i64, hi: i64 },
    Label(String),
    And(Box<P>, Box<P>),
    Or(Box<P>, Box<P>),
    Not(Box<P>),
}

pub struct Gen {
    pub style: BoundStyle,
    pub now: i64,
    /// interesting instants (data timestamps, bucket edges)
    pub points: Vec<i64>,
    pub features: Vec<&'static str>,
}

fn ts_literal(v: i64) -> String {
    let secs = v.div_euclid(1_000_000_000);
    let nanos = v.rem_euclid(1_000_000_000) as u32;
    let dt = chrono::DateTime::from_timestamp(secs, nanos).unwrap();
    format!("TIMESTAMP '{}'", dt.format("%Y-%m-%dT%H:%M:%S%.9f"))
}

impl Gen {
    fn bound(&self, v: i64, now_rel: bool) -> String {
        match self.style {
            BoundStyle::Int => format!("{v}"),
            BoundStyle::Ts => {
                if now_rel {
                    // v is an exact number of seconds away from now
                    let d = (v - self.now) / 1_000_000_000;
                    if d >= 0 {
                        format!("now() + interval '{} seconds'", d)
                    } else {
                        format!("now() - interval '{} seconds'", -d)
                    }
                } else {
                    ts_literal(v)
                }
            }
        }
    }
    pub fn render(&self, p: &P) -> String {
        match p {
            P::Cmp { op, v, rev, now_rel } => {
                let b = self.bound(*v, *now_rel);
                if *rev {
                    let m = match *op {
                        "<" => ">",
                        "<=" => ">=",
                        ">" => "<",
                        ">=" => "<=",
                        o => o,
                    };
                    format!("{b} {m} timestamp")
                } else {
                    format!("timestamp {op} {b}")
                }
            }
            P::Between { lo, hi } => format!("timestamp BETWEEN {} AND {}", self.bound(*lo, false), self.bound(*hi, false)),
            P::Label(s) => s.clone(),
            P::And(a, b) => format!("({} AND {})", self.render(a), self.render(b)),
            P::Or(a, b) => format!("({} OR {})", self.render(a), self.render(b)),
            P::Not(a) => format!("(NOT {})", self.render(a)),
        }
    }
    fn point(&self) -> i64 {
        let base = self.points[sim::w(self.points.len() as u32) as usize];
        base + [0i64, 1, -1, 1_000_000_000, -1_000_000_000, 1800 * 1_000_000_000][sim::w(6) as usize]
    }
    /// a bound that is a whole number of seconds away from now (so now()-relative rendering is exact)
    fn now_point(&self) -> i64 {
        let p = self.point();
        self.now + ((p - self.now) / 1_000_000_000) * 1_000_000_000
    }
    fn cmp(&mut self, lower: bool) -> P {
        let strict = sim::w_bool(40);
        let rev = sim::w_bool(35);
        let now_rel = self.style == BoundStyle::Ts && sim::w_bool(40);
        if rev {
            self.features.push("reversed-operands");
        }
        if now_rel {
            self.features.push("now-relative-bound");
        }
        let v = if now_rel { self.now_point() } else { self.point() };
        let op = match (lower, strict) {
            (true, true) => ">",
            (true, false) => ">=",
            (false, true) => "<",
            (false, false) => "<=",
        };
        P::Cmp { op, v, rev, now_rel }
    }
    /// an expression that confines the timestamp to a finite window (by construction)
    pub fn window(&mut self, depth: u32) -> P {
        // one window in eight repeats a sub-expression verbatim in two places (what a query builder that ORs
        // per-series conditions produces; the engine's optimizer factors such repeats out of the filter)
        if depth == 0 && sim::w(8) == 7 {
            self.features.push("repeated-subexpression");
            let w = self.window(1);
            return match sim::w(3) {
                0 => P::Or(Box::new(P::And(Box::new(w.clone()), Box::new(self.extra(2)))), Box::new(P::And(Box::new(w), Box::new(self.extra(2))))),
                1 => P::Or(Box::new(P::And(Box::new(w.clone()), Box::new(self.extra(2)))), Box::new(P::Or(Box::new(w), Box::new(self.window(2))))),
                _ => P::And(Box::new(P::Or(Box::new(w.clone()), Box::new(self.window(2)))), Box::new(P::Or(Box::new(w), Box::new(self.window(2))))),
            };
        }
        match sim::w(if depth > 1 { 4 } else { 8 }) {
            0 | 1 => {
                let (mut a, mut b) = (self.cmp(true), self.cmp(false));
                // keep lower <= upper most of the time
                if let (P::Cmp { v: va, .. }, P::Cmp { v: vb, .. }) = (&mut a, &mut b) {
                    if *va > *vb && sim::w(8) != 7 {
                        std::mem::swap(va, vb);
                    } else if *va > *vb {
                        self.features.push("contradictory-bounds");
                    }
                }
                if sim::w_bool(50) {
                    P::And(Box::new(a), Box::new(b))
                } else {
                    P::And(Box::new(b), Box::new(a))
                }
            }
            2 => {
                let (a, b) = (self.point(), self.point());
                self.features.push("between");
                P::Between { lo: a.min(b), hi: a.max(b) }
            }
            3 => {
                self.features.push("equality");
                P::Cmp { op: "=", v: self.points[sim::w(self.points.len() as u32) as usize], rev: false, now_rel: false }
            }
            4 => {
                self.features.push("union-of-windows");
                P::Or(Box::new(self.window(depth + 1)), Box::new(self.window(depth + 1)))
            }
            5 => {
                // NOT (ts < a) AND NOT (ts > b)
                self.features.push("window-by-negation");
                let (a, b) = (self.point(), self.point());
                let (lo, hi) = (a.min(b), a.max(b));
                P::And(
                    Box::new(P::Not(Box::new(P::Cmp { op: "<", v: lo, rev: false, now_rel: false }))),
                    Box::new(P::Not(Box::new(P::Cmp { op: ">", v: hi, rev: false, now_rel: false }))),
                )
            }
            6 => {
                self.features.push("window-and-narrowing");
                P::And(Box::new(self.window(depth + 1)), Box::new(self.extra(depth + 1)))
            }
            _ => {
                self.features.push("equality-set");
                let a = self.points[sim::w(self.points.len() as u32) as usize];
                let b = self.points[sim::w(self.points.len() as u32) as usize];
                P::Or(
                    Box::new(P::Cmp { op: "=", v: a, rev: false, now_rel: false }),
                    Box::new(P::Cmp { op: "=", v: b, rev: false, now_rel: false }),
                )
            }
        }
    }
    /// any predicate (may or may not bound the timestamp)
    pub fn extra(&mut self, depth: u32) -> P {
        match sim::w(if depth > 2 { 3 } else { 8 }) {
            0 => P::Label(format!("metric_name = '{}'", ["cpu", "mem", "disk"][sim::w(3) as usize])),
            1 => P::Label(format!("metric_name <> '{}'", ["cpu", "mem"][sim::w(2) as usize])),
            2 => self.cmp(sim::w_bool(50)),
            3 => P::And(Box::new(self.extra(depth + 1)), Box::new(self.extra(depth + 1))),
            4 => {
                self.features.push("disjunction");
                P::Or(Box::new(self.extra(depth + 1)), Box::new(self.extra(depth + 1)))
            }
            5 => {
                self.features.push("negation");
                P::Not(Box::new(self.extra(depth + 1)))
            }
            6 => {
                // value predicates (exercise statistics-based chunk pruning when the catalog carries statistics)
                self.features.push("value-predicate");
                let op = ["<", "<=", ">", ">=", "="][sim::w(5) as usize];
                P::Label(format!("value_i64 {op} {}", sim::w(11)))
            }
            _ => P::Label("id % 2 = 0".to_string()),
        }
    }
    pub fn where_clause(&mut self) -> P {
        let w = self.window(0);
        match sim::w(4) {
            0 => w,
            1 | 2 => P::And(Box::new(w), Box::new(self.extra(0))),
            _ => P::And(Box::new(self.extra(0)), Box::new(w)),
        }
    }
    pub fn select(&mut self, value_col: &str, has_host: bool) -> (String, String) {
        // (select list, tail)
        match sim::w(13) {
            10 | 11 => {
                // the sequence of timestamp values is determined even when rows tie
                self.features.push("order-by-timestamp");
                let dir = if sim::w_bool(50) { " DESC" } else { "" };
                let lim = match sim::w(3) {
                    0 => String::new(),
                    1 => format!(" LIMIT {}", sim::w_range(1, 5)),
                    _ => format!(" LIMIT {} OFFSET {}", sim::w_range(1, 4), sim::w_range(1, 3)),
                };
                ("timestamp".into(), format!(" ORDER BY timestamp{dir}{lim}"))
            }
            12 => {
                // "latest rows": ids are unique, so (timestamp, id) is a total order
                self.features.push("latest-rows");
                let lim = if sim::w_bool(70) { format!(" LIMIT {}", sim::w_range(1, 5)) } else { format!(" LIMIT {} OFFSET {}", sim::w_range(1, 3), sim::w_range(1, 2)) };
                (["id, timestamp", "*"][sim::w(2) as usize].into(), format!(" ORDER BY timestamp DESC, id{}{lim}", if sim::w_bool(50) { " DESC" } else { "" }))
            }
            7 => {
                self.features.push("distinct");
                ("DISTINCT metric_name".into(), String::new())
            }
            8 => {
                self.features.push("having");
                ("metric_name, count(*) AS c".into(), " GROUP BY metric_name HAVING count(*) > 1".into())
            }
            9 => {
                // ids are unique, so the three smallest are well defined
                self.features.push("order-by-limit");
                ("id".into(), " ORDER BY id LIMIT 3".into())
            }
            0 => ("id".into(), String::new()),
            1 => (format!("id, timestamp, metric_name, {value_col}"), String::new()),
            2 => {
                self.features.push("aggregate");
                (format!("count(*) AS c, min({value_col}) AS mn, max({value_col}) AS mx"), String::new())
            }
            3 => {
                self.features.push("aggregate");
                (format!("sum({value_col}) AS s, avg({value_col}) AS a, count({value_col}) AS n"), String::new())
            }
            4 => {
                self.features.push("group-by");
                (format!("metric_name, count(*) AS c, sum({value_col}) AS s"), " GROUP BY metric_name".into())
            }
            5 if has_host => {
                self.features.push("group-by");
                ("host, count(*) AS c, min(id) AS first".into(), " GROUP BY host".into())
            }
            _ => (format!("{value_col}, id"), String::new()),
        }
    }
}

/// Reference evaluation: the same SQL on a MemTable named `metrics` holding all rows.
pub async fn reference(sql: &str, all_rows: &RecordBatch) -> Result<Vec<RecordBatch>, String> {
    let cfg = SessionConfig::new().with_target_partitions(1).with_batch_size(8192);
    let ctx = SessionContext::new_with_config(cfg);
    let t = MemTable::try_new(all_rows.schema(), vec![vec![all_rows.clone()]]).map_err(|e| e.to_string())?;
    ctx.register_table("metrics", Arc::new(t)).map_err(|e| e.to_string())?;
    let df = ctx.sql(sql).await.map_err(|e| e.to_string())?;
    df.collect().await.map_err(|e| e.to_string())
}

/// The rows in the order they were returned (for statements whose ORDER BY determines the sequence).
pub fn result_sequence(bs: &[RecordBatch]) -> Vec<String> {
    bs.iter().flat_map(row_strings).collect()
}

pub fn result_multiset(bs: &[RecordBatch]) -> BTreeMap<String, u32> {
    multiset(bs.iter().flat_map(row_strings))
}

/// Short description of a difference between two answers.
pub fn describe_diff(want: &BTreeMap<String, u32>, got: &BTreeMap<String, u32>) -> String {
    let (missing, extra) = diff_multiset(want, got);
    format!(
        "expected {} rows, got {}; missing e.g. {:?}; unexpected e.g. {:?}",
        want.values().sum::<u32>(),
        got.values().sum::<u32>(),
        missing.iter().take(2).collect::<Vec<_>>(),
        extra.iter().take(2).collect::<Vec<_>>()
    )
}
