//! C19 — write routing always terminates on a node that can accept writes.

use crate::core::coord::PropDef;
use crate::core::run::{RunSpec, ScenFut};
use crate::core::sim;
use cardinalsin::cluster::{AssignmentStrategy, DistributedWriteRouter, NodeInfo, NodeRegistry, NodeType, ShardAssignment};
use std::collections::BTreeMap;
use std::sync::Arc;
use std::time::Duration;

pub static DEF: PropDef = PropDef {
    id: "C19",
    level: "exploration",
    engine: "cluster",
    rule: "one run = a real NodeRegistry (heartbeat timeout 30 / 8 / 5 / 4 s, run_health_checks task on the virtual clock), ShardAssignment (one of the three strategies) and DistributedWriteRouter driven through a generated history of 8..30 events (register ingester/query/combined node, heartbeat, stop heartbeating, drain, load change incl. >=95%, remove, rebalance, virtual pauses of 0..40 s) with route_write for 1..4 shard ids after every event, each call under a 1000-poll budget; distinct = distinct hash of (strategy, event history); non-trivial = completed AND at least one node turned ineligible while it had a shard assigned",
    quick_runs: 20000,
    thorough_runs: 200_000,
    run_cap_ms: 20_000,
    scen,
    extra_phase: None,
    real: &["cluster::NodeRegistry (+ run_health_checks)", "cluster::ShardAssignment (consistent hash ring, round robin, load based, rebalance)", "cluster::DistributedWriteRouter::route_write"],
    stub: &["clock (virtual; std Instant interposed)"],
    assumptions: &["membership events are applied one at a time (the registry serialises them behind its lock)"],
};

fn scen(_spec: RunSpec) -> ScenFut {
    Box::pin(async move {
        sim::set_cfg(|c| {
            c.adv_pct = 0;
            c.idle_tick_ms = 5_000;
        });
        let strategy = [AssignmentStrategy::ConsistentHash, AssignmentStrategy::RoundRobin, AssignmentStrategy::LoadBased][sim::w(3) as usize];
        // heartbeat timeout: the default 30 s, or a short one (short time-outs are what latency-sensitive deployments set)
        let timeout_s: u64 = [30u64, 30, 8, 5, 4][sim::w(5) as usize];
        let nodes = Arc::new(NodeRegistry::new(timeout_s));
        let assign = Arc::new(ShardAssignment::new(nodes.clone(), strategy));
        let router = Arc::new(DistributedWriteRouter::new(assign.clone(), nodes.clone()));
        let n2 = nodes.clone();
        tokio::spawn(async move { n2.run_health_checks().await });
        let nshards = sim::w_range(1, 4);
        let nev = sim::w_range(8, 30);
        let mut hist = format!("{:?};", strategy);
        let mut known: Vec<String> = Vec::new();
        let mut beating: BTreeMap<String, bool> = BTreeMap::new();
        // a small model of what the history says about each node, independent of the registry's own bookkeeping:
        // type, last reported load, drained (until it registers again), removed, last heartbeat
        let mut m_type: std::collections::BTreeMap<String, NodeType> = std::collections::BTreeMap::new();
        let mut m_load: std::collections::BTreeMap<String, u8> = std::collections::BTreeMap::new();
        let mut m_drained: std::collections::BTreeSet<String> = std::collections::BTreeSet::new();
        let mut m_removed: std::collections::BTreeSet<String> = std::collections::BTreeSet::new();
        let mut m_beat: std::collections::BTreeMap<String, u64> = std::collections::BTreeMap::new();
        // last routed node per shard together with the event epoch at which it was observed
        let mut last: BTreeMap<String, (String, u64)> = BTreeMap::new();
        let mut epoch = 0u64;
        let mut last_rebalance = 0u64;
        let mut interesting = false;
        for step in 0..nev {
            let kind = sim::w(12);
            let pick = |known: &Vec<String>| -> Option<String> {
                if known.is_empty() {
                    None
                } else {
                    Some(known[sim::w(known.len() as u32) as usize].clone())
                }
            };
            epoch += 1;
            match kind {
                0..=2 => {
                    let id = format!("node{}", known.len());
                    let ty = [NodeType::Ingester, NodeType::Ingester, NodeType::Combined, NodeType::Query][sim::w(4) as usize];
                    hist.push_str(&format!("reg{:?};", ty));
                    sim::log(format!("EV{step} register {id} {:?}", ty));
                    nodes.register_node(NodeInfo::new(id.clone(), "127.0.0.1:8080".parse().unwrap(), ty)).await;
                    known.push(id.clone());
                    m_type.insert(id.clone(), ty);
                    m_load.insert(id.clone(), 0);
                    m_beat.insert(id.clone(), sim::now_ns());
                    beating.insert(id, true);
                }
                3 => {
                    if let Some(id) = pick(&known) {
                        let on = sim::w_bool(50);
                        hist.push_str(&format!("beat{id}{on};"));
                        sim::log(format!("EV{step} heartbeats of {id} {}", if on { "resume" } else { "stop" }));
                        beating.insert(id, on);
                    }
                }
                4 | 5 => {
                    if let Some(id) = pick(&known) {
                        hist.push_str(&format!("drain{id};"));
                        sim::log(format!("EV{step} drain {id}"));
                        if assign.get_all_assignments().await.values().any(|n| *n == id) {
                            interesting = true;
                            sim::probe("assigned-node-drained");
                        }
                        nodes.drain_node(&id).await;
                        if !m_removed.contains(&id) {
                            m_drained.insert(id.clone());
                        }
                    }
                }
                6 | 7 => {
                    if let Some(id) = pick(&known) {
                        let load = [0u8, 50, 94, 95, 100][sim::w(5) as usize];
                        hist.push_str(&format!("load{id}{load};"));
                        sim::log(format!("EV{step} load {id} = {load}"));
                        if load >= 95 && assign.get_all_assignments().await.values().any(|n| *n == id) {
                            interesting = true;
                            sim::probe("assigned-node-overloaded");
                        }
                        nodes.update_load(&id, load).await;
                        m_load.insert(id.clone(), load);
                    }
                }
                8 => {
                    if let Some(id) = pick(&known) {
                        hist.push_str(&format!("rm{id};"));
                        sim::log(format!("EV{step} remove {id}"));
                        if assign.get_all_assignments().await.values().any(|n| *n == id) {
                            interesting = true;
                            sim::probe("assigned-node-removed");
                        }
                        nodes.remove_node(&id).await;
                        m_removed.insert(id.clone());
                    }
                }
                9 => {
                    hist.push_str("rebalance;");
                    sim::log(format!("EV{step} rebalance"));
                    let _ = assign.rebalance().await;
                    last_rebalance = epoch;
                }
                _ => {
                    // time passes; live nodes heartbeat every 5 s
                    let secs = [1u64, 10, 20, 40][sim::w(4) as usize];
                    hist.push_str(&format!("t{secs};"));
                    sim::log(format!("EV{step} {secs}s pass"));
                    let mut left = secs;
                    while left > 0 {
                        let d = left.min(5);
                        tokio::time::sleep(Duration::from_secs(d)).await;
                        left -= d;
                        for (id, on) in &beating {
                            if *on {
                                nodes.heartbeat(id).await;
                                m_beat.insert(id.clone(), sim::now_ns());
                            }
                        }
                    }
                    let failed = nodes.get_all_nodes().await.iter().filter(|n| !n.can_accept_writes()).count();
                    if failed > 0 {
                        sim::probe("node-ineligible-after-time");
                    }
                }
            }
            // route a few shards
            let mut routed: Vec<(String, Option<String>)> = Vec::new();
            for round in 0..2 {
                for s in 0..nshards {
                    let shard = format!("shard-{s}");
                    let r2 = router.clone();
                    let sh = shard.clone();
                    // bounded time: nothing in routing sleeps, so 60 virtual seconds is far beyond any legitimate
                    // duration; a call parked for ever (e.g. on a lock it holds itself) counts like one that spins
                    let out = match tokio::time::timeout(Duration::from_secs(60), sim::poll_budget(async move { r2.route_write(&sh).await }, 1000)).await {
                        Ok(o) => o,
                        Err(_) => None,
                    };
                    match out {
                        None => {
                            sim::violation(
                                "C19/route-write-does-not-terminate",
                                format!("route_write({shard}) did not return within 1000 polls / 60 virtual seconds after event {step} (strategy {:?}); nodes: {:?}", strategy, summarize(&nodes).await),
                            );
                            sim::set_completed();
                            return;
                        }
                        Some(Ok(Some(n))) => {
                            // against the history (not the registry's own fields): never a removed node, a drained node
                            // that has not registered again, a query-only node, a node whose last reported load is
                            // >= 95 %, or a node silent for longer than the heartbeat timeout plus two health-check periods
                            let why = if m_removed.contains(&n.id) {
                                Some("was removed")
                            } else if m_drained.contains(&n.id) {
                                Some("was drained and has not registered again")
                            } else if matches!(m_type.get(&n.id), Some(NodeType::Query)) {
                                Some("is a query-only node")
                            } else if m_load.get(&n.id).copied().unwrap_or(0) >= 95 {
                                Some("last reported a load of 95 % or more")
                            } else if sim::now_ns().saturating_sub(m_beat.get(&n.id).copied().unwrap_or(0)) > (timeout_s + 11) * 1_000_000_000 {
                                // the registry looks at the heartbeats every 5 s: after the timeout plus two such periods a silent
                                // node is at least suspected, i.e. not healthy
                                Some("has been silent for longer than the heartbeat timeout plus two health-check periods")
                            } else {
                                None
                            };
                            if let Some(why) = why {
                                sim::violation("C19/routed-to-ineligible-node/by-history", format!("route_write({shard}) returned node {} which {why} (registry says status {:?}, load {})", n.id, n.status, n.load_percent));
                            }
                            // the registry's own record of the node, field by field (not through its eligibility helper): healthy
                            // means status Healthy - a suspected, failed or draining node is not
                            if !matches!(n.status, cardinalsin::cluster::NodeStatus::Healthy) {
                                sim::violation("C19/routed-to-ineligible-node/status", format!("route_write({shard}) returned node {} whose status is {:?}", n.id, n.status));
                            }
                            if !n.can_accept_writes() {
                                sim::violation(
                                    "C19/routed-to-ineligible-node",
                                    format!("route_write({shard}) returned node {} with status {:?}, type {:?}, load {}", n.id, n.status, n.node_type, n.load_percent),
                                );
                            }
                            // it must be a registered node and the shard's single assignment
                            match assign.get_node_for_shard(&shard).await {
                                Some(a) if a == n.id => {}
                                other => sim::violation("C19/route-disagrees-with-assignment", format!("route_write({shard}) -> {}, assignment map says {:?}", n.id, other)),
                            }
                            if let Some((prev, ep)) = last.get(&shard) {
                                // assignments change only inside route_write / rebalance: if the previously
                                // routed node is eligible right now and no rebalance ran since, it must still own the shard
                                let prev_ok = nodes.get_node(prev).await.map(|p| p.can_accept_writes()).unwrap_or(false);
                                if *prev != n.id && prev_ok && *ep >= last_rebalance {
                                    sim::violation(
                                        "C19/assignment-moved-without-cause",
                                        format!("shard {shard} moved from {prev} to {} although {prev} can accept writes and no rebalance ran in between", n.id),
                                    );
                                }
                            }
                            last.insert(shard.clone(), (n.id.clone(), epoch));
                            routed.push((shard, Some(n.id)));
                        }
                        Some(Ok(None)) => routed.push((shard, None)),
                        Some(Err(_)) => {
                            sim::probe("route-error");
                            last.remove(&shard);
                            routed.push((shard, None));
                        }
                    }
                }
                let _ = round;
            }
            sim::log(format!("ROUTED {:?}", routed));
        }
        sim::set_completed();
        if interesting {
            sim::set_nontrivial();
        }
        sim::with(|st| st.sched_sig ^= sim::hash_str(&hist));
        sim::state_sig(sim::hash_str(&format!("{:?}", assign.get_all_assignments().await.into_iter().collect::<BTreeMap<_, _>>())));
    })
}

async fn summarize(nodes: &Arc<NodeRegistry>) -> Vec<String> {
    let mut v: Vec<String> = nodes.get_all_nodes().await.iter().map(|n| format!("{}:{:?}/{:?}/{}%", n.id, n.status, n.node_type, n.load_percent)).collect();
    v.sort();
    v
}
