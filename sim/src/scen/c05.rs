//! C05 — WAL recovery is exact under torn writes; sequence numbers never regress.
//!
//! Real `WriteAheadLog` (+ persist/load_flushed_seq) on the simulated disk.
//! Random histories plus a systematic sweep over every byte offset at which
//! the final write of a generated history may be cut.

use crate::core::coord::{Coord, PropDef};
use crate::core::disk;
use crate::core::run::{RunSpec, ScenFut};
use crate::core::sim;
use arrow_array::{Int64Array, RecordBatch, StringArray};
use arrow_schema::{DataType, Field, Schema};
use cardinalsin::ingester::{load_flushed_seq, persist_flushed_seq, WalConfig, WalSyncMode, WriteAheadLog};
use std::sync::Arc;

pub static DEF: PropDef = PropDef {
    id: "C05",
    level: "fault_enumeration",
    engine: "ingest",
    rule: "random phase: one run = a generated history of 4..14 WAL operations (append of a random-size batch - one run in forty with an entry of more than 2 MiB, one in a hundred and fifty with one of more than 64 MiB -, one run in eight continuing a log whose segment ids are about to need a seventh digit, rotation via segment limits of ~1/~2/~4 entries/unbounded, truncate_before, persist_flushed_seq, clean reopen, crash with the in-flight append cut at a drawn byte / at the sync / right after creating a new segment, crash inside persist_flushed_seq leaving 0..7 bytes, crash inside truncation, EIO/ENOSPC/short writes), with 1..4 crash-reopen rounds and appends after every reopen; sweep phase (fault enumeration): for each of N generated histories, one run per byte offset 0..=T of the final append (T = header+payload bytes), plus 'die at open of the rotated segment', each followed by a fixed reopen/append/reopen tail; distinct = distinct (history hash, cut position); non-trivial = completed AND at least one crash or disk fault fired",
    quick_runs: 4000,
    thorough_runs: 100_000,
    run_cap_ms: 120_000,
    scen,
    extra_phase: Some(sweep_phase),
    real: &["cardinalsin::ingester::WriteAheadLog (open, append, rotate, read_entries[_after], truncate_before, next_seq)", "persist_flushed_seq / load_flushed_seq", "arrow IPC encoding, CRC"],
    stub: &["kernel file system = synchronous shim on tmpfs with fault hook (process-crash semantics: written bytes survive, un-written bytes of the cut write do not)"],
    assumptions: &["process-crash semantics; power-loss reordering of un-synced writes is not modelled", "one WAL owner at a time"],
};

fn mk_batch(id: i64, rows: usize, slen: usize) -> RecordBatch {
    let schema = Arc::new(Schema::new(vec![
        Field::new("timestamp", DataType::Int64, false),
        Field::new("metric_name", DataType::Utf8, false),
        Field::new("value_i64", DataType::Int64, true),
    ]));
    let ts: Vec<i64> = (0..rows as i64).map(|i| 1_700_000_000_000_000_000 + id * 100 + i).collect();
    let names: Vec<String> = (0..rows).map(|i| format!("m{}{}", i, "x".repeat(slen))).collect();
    let vals: Vec<i64> = (0..rows as i64).map(|i| id * 100 + i).collect();
    RecordBatch::try_new(schema, vec![Arc::new(Int64Array::from(ts)), Arc::new(StringArray::from(names)), Arc::new(Int64Array::from(vals))]).unwrap()
}

fn encoded_len(b: &RecordBatch) -> usize {
    let mut buffer = Vec::new();
    let schema = b.schema();
    let mut w = arrow::ipc::writer::StreamWriter::try_new(&mut buffer, &schema).unwrap();
    w.write(b).unwrap();
    w.finish().unwrap();
    drop(w);
    buffer.len()
}

#[derive(Debug, Clone)]
struct RefEntry {
    seq: u64,
    id: i64,
    rows: usize,
    slen: usize,
}

struct Model {
    log: Vec<RefEntry>,
    lost_prefix: usize,
    trunc_bound: u64,
    max_acked: u64,
    max_flushed: u64,
    next_id: i64,
    crashes: u32,
    hist: String,
}

enum AppendOutcome {
    Acked(u64),
    Failed(String),
    Crashed,
}

async fn do_append(wal: &mut Option<WriteAheadLog>, b: RecordBatch) -> (AppendOutcome, Option<WriteAheadLog>) {
    // run the append in its own task so that a death inside the write (future never completes) is observable
    let mut w = wal.take().unwrap();
    let h = tokio::spawn(async move {
        let r = w.append(&b).await;
        (r, w)
    });
    tokio::select! {
        r = h => {
            match r {
                Ok((Ok(seq), w)) => (AppendOutcome::Acked(seq), Some(w)),
                Ok((Err(e), w)) => (AppendOutcome::Failed(e.to_string()), Some(w)),
                Err(_) => (AppendOutcome::Failed("append task panicked".into()), None),
            }
        }
        _ = sim::wait_crash(0) => (AppendOutcome::Crashed, None),
    }
}

async fn reopen_and_check(cfg: &WalConfig, m: &mut Model, in_doubt: Option<(RefEntry, bool)>, tag: &str) -> Option<WriteAheadLog> {
    disk::with(|d| {
        d.write_budget = None;
        d.die_on = None;
        d.fail_on = None;
    });
    let wal = match WriteAheadLog::open(cfg.clone()).await {
        Ok(w) => w,
        Err(e) => {
            sim::violation("C05/reopen-failed", format!("{tag}: WriteAheadLog::open failed after a crash: {e}"));
            return None;
        }
    };
    let entries = match wal.read_entries() {
        Ok(e) => e,
        Err(e) => {
            sim::violation("C05/read-entries-failed", format!("{tag}: read_entries failed: {e}"));
            return Some(wal);
        }
    };
    // the in-doubt entry (crashed append) is present iff it was written completely
    if let Some((e, complete)) = in_doubt {
        let present = entries.iter().any(|x| x.seq == e.seq) && !m.log.iter().any(|x| x.seq == e.seq);
        if complete && !entries.iter().any(|x| x.seq == e.seq) {
            sim::violation("C05/complete-entry-missing", format!("{tag}: entry seq {} was written completely before the crash but is not recovered", e.seq));
        }
        if !complete && present {
            sim::violation("C05/partial-entry-returned", format!("{tag}: entry seq {} was cut by the crash but is returned by recovery", e.seq));
        }
        if complete && entries.iter().any(|x| x.seq == e.seq) {
            m.log.push(e);
            sim::probe("complete-unacked-entry-recovered");
        }
    }
    let got: Vec<u64> = entries.iter().map(|e| e.seq).collect();
    // expected: reference minus a (monotonically growing) prefix of truncated entries
    let want_all: Vec<u64> = m.log.iter().map(|e| e.seq).collect();
    let mut ok = false;
    for k in m.lost_prefix..=m.log.len() {
        if m.log[..k].iter().all(|e| e.seq < m.trunc_bound) && want_all[k..] == got[..] {
            m.lost_prefix = k;
            ok = true;
            break;
        }
        if k < m.log.len() && m.log[k].seq >= m.trunc_bound {
            break;
        }
    }
    if !ok {
        // classify
        let missing: Vec<u64> = want_all[m.lost_prefix..].iter().filter(|s| **s >= m.trunc_bound && !got.contains(s)).cloned().collect();
        let dup = {
            let mut s = got.clone();
            s.sort();
            s.windows(2).any(|w| w[0] == w[1])
        };
        let sig = if dup {
            "C05/duplicate-or-reused-seq-in-log"
        } else if !missing.is_empty() {
            "C05/acked-entry-not-recovered"
        } else {
            "C05/recovered-log-differs"
        };
        sim::violation(
            sig,
            format!(
                "{tag}: recovered seqs {:?}; acknowledged entries {:?} (already truncated prefix: {}, truncate bound {}); missing {:?}",
                got, want_all, m.lost_prefix, m.trunc_bound, missing
            ),
        );
    } else {
        // payloads must decode to the appended batches
        for e in &entries {
            if let Some(r) = m.log.iter().find(|r| r.seq == e.seq) {
                match e.batches() {
                    Ok(bs) if bs.len() == 1 && bs[0] == mk_batch(r.id, r.rows, r.slen) => {}
                    Ok(_) => sim::violation("C05/payload-differs", format!("{tag}: entry seq {} decodes to a different batch", e.seq)),
                    Err(er) => sim::violation("C05/payload-undecodable", format!("{tag}: entry seq {}: {er}", e.seq)),
                }
            }
        }
        // read_entries_after is the filter
        let x = if got.is_empty() { 0 } else { got[sim::w(got.len() as u32) as usize] };
        match wal.read_entries_after(x) {
            Ok(v) => {
                let g: Vec<u64> = v.iter().map(|e| e.seq).collect();
                let w: Vec<u64> = got.iter().filter(|s| **s > x).cloned().collect();
                if g != w {
                    sim::violation("C05/read-after-differs", format!("{tag}: read_entries_after({x}) = {:?}, expected {:?}", g, w));
                }
            }
            Err(e) => sim::violation("C05/read-entries-failed", format!("{tag}: read_entries_after failed: {e}")),
        }
    }
    // a persist interrupted by a crash may or may not have landed; what the file holds now counts as recorded
    match load_flushed_seq(&cfg.wal_dir) {
        Ok(f) if f <= m.max_acked => m.max_flushed = m.max_flushed.max(f),
        Ok(f) => sim::violation("C05/flushed-mark-garbage", format!("{tag}: flushed_seq file holds {f}, above every acknowledged sequence number ({})", m.max_acked)),
        Err(e) => sim::violation("C05/flushed-mark-unreadable", format!("{tag}: {e}")),
    }
    let ns = wal.next_seq();
    if ns <= m.max_acked {
        sim::violation("C05/next-seq-not-above-acknowledged", format!("{tag}: after reopen next_seq = {ns} but seq {} was already acknowledged", m.max_acked));
    }
    if ns <= m.max_flushed {
        sim::violation("C05/next-seq-not-above-flushed-mark", format!("{tag}: after reopen next_seq = {ns} but {} is recorded as flushed", m.max_flushed));
    }
    Some(wal)
}

/// stop at the first violation of a run so that follow-on effects do not get signatures of their own
fn failed() -> bool {
    sim::with(|st| !st.violations.is_empty())
}

fn note_ack(m: &mut Model, seq: u64, e: RefEntry, tag: &str) {
    if seq <= m.max_acked {
        sim::violation("C05/seq-reused", format!("{tag}: append returned seq {seq}, but seq {} was already acknowledged", m.max_acked));
    }
    if seq <= m.max_flushed {
        sim::violation("C05/seq-at-or-below-flushed-mark", format!("{tag}: append returned seq {seq}, but {} is recorded as flushed", m.max_flushed));
    }
    m.max_acked = m.max_acked.max(seq);
    m.log.push(RefEntry { seq, ..e });
}

fn scen(spec: RunSpec) -> ScenFut {
    Box::pin(async move {
        disk::install(0);
        sim::set_cfg(|c| c.adv_pct = 0);
        let dir = disk::scratch_dir("wal");
        let sweep_cut: Option<String> = spec.variant.strip_prefix("cut:").map(|s| s.to_string());
        let is_sweep = spec.variant != "random";
        // entry sizes are ~600..1500 bytes
        let seg = [1usize, 1500, 2600, 5000, 1 << 30][sim::w(5) as usize];
        // one random run in eight continues a long-lived log: its newest segment carries the id 999 998, so the
        // rotations of this run cross from six-digit to seven-digit segment ids
        let old_log = !is_sweep && sim::w(8) == 7;
        let seg = if old_log { [1usize, 1500][sim::w(2) as usize] } else { seg };
        if old_log {
            std::fs::write(format!("{dir}/segment-999998.wal"), b"").expect("seed an old segment");
            sim::probe("log-with-seven-digit-segment-ids");
        }
        // one random run in forty appends an entry of more than 2 MiB (tokio's File accepts 2 MiB per write call)
        let giant_at: Option<u32> = if !is_sweep && sim::w(40) == 39 { Some(1 + sim::w(3)) } else { None };
        // ... and one in a hundred and fifty an entry of more than 64 MiB (the writer has no size limit, so the reader has none)
        let huge_at: Option<u32> = if !is_sweep && sim::w(150) == 149 { Some(1 + sim::w(3)) } else { None };
        let cfg = WalConfig { wal_dir: dir.clone().into(), max_segment_size: seg, sync_mode: WalSyncMode::EveryWrite, enabled: true };
        sim::log(format!("CONFIG max_segment_size={seg} variant={}", spec.variant));
        let mut m = Model { log: vec![], lost_prefix: 0, trunc_bound: 0, max_acked: 0, max_flushed: 0, next_id: 1, crashes: 0, hist: format!("seg{seg};") };
        let mut wal = match WriteAheadLog::open(cfg.clone()).await {
            Ok(w) => Some(w),
            Err(e) => {
                sim::violation("C05/initial-open-failed", e.to_string());
                return;
            }
        };
        let nops = if is_sweep { sim::w_range(1, 6) } else { sim::w_range(4, 14) };
        // (a run with a 70 MB entry re-reads it at every reopen: keep such histories short)
        let nops = if huge_at.is_some() { nops.min(6) } else { nops };
        let mut step = 0;
        while step < nops {
            step += 1;
            if wal.is_none() || failed() {
                break;
            }
            let kind = if is_sweep { sim::w(7) } else { sim::w(12) };
            match kind {
                0..=3 => {
                    let (rows, slen) = (sim::w_range(1, 4) as usize, [0usize, 3, 40, 300][sim::w(4) as usize]);
                    let (rows, slen) = if huge_at == Some(step) {
                        sim::probe("entry-larger-than-64MiB");
                        (4_400_000usize, 0usize)
                    } else if giant_at == Some(step) {
                        sim::probe("entry-larger-than-2MiB");
                        (140_000usize, 0usize)
                    } else {
                        (rows, slen)
                    };
                    let id = m.next_id;
                    m.next_id += 1;
                    m.hist.push_str(&format!("A{rows}.{slen};"));
                    let e = RefEntry { seq: 0, id, rows, slen };
                    let (o, w) = do_append(&mut wal, mk_batch(id, rows, slen)).await;
                    wal = w;
                    match o {
                        AppendOutcome::Acked(seq) => note_ack(&mut m, seq, e, &format!("step {step}")),
                        AppendOutcome::Failed(er) => sim::log(format!("append failed: {er}")),
                        AppendOutcome::Crashed => {}
                    }
                }
                4 => {
                    // flush-style: truncate_before(s) then persist(s)  (what a flush does)
                    // marks never go backwards (a persist interrupted by a crash may have landed: re-read the file)
                    let on_disk = load_flushed_seq(std::path::Path::new(&dir)).unwrap_or(0);
                    if on_disk <= m.max_acked {
                        m.max_flushed = m.max_flushed.max(on_disk);
                    }
                    if m.max_acked > 0 && m.max_flushed <= m.max_acked {
                        let s = (m.max_flushed + sim::w((m.max_acked - m.max_flushed + 1) as u32) as u64).min(m.max_acked);
                        m.hist.push_str(&format!("F{s};"));
                        m.trunc_bound = m.trunc_bound.max(s);
                        let r = wal.as_mut().unwrap().truncate_before(s).await;
                        sim::log(format!("truncate_before({s}) -> {:?}", r.as_ref().map_err(|e| e.to_string())));
                        if persist_flushed_seq(std::path::Path::new(&dir), s).is_ok() {
                            m.max_flushed = m.max_flushed.max(s);
                        }
                    }
                }
                5 => {
                    // recovery-style: truncate_before(flushed + 1)
                    let f = load_flushed_seq(std::path::Path::new(&dir)).unwrap_or(0);
                    if f > 0 && f <= m.max_acked {
                        m.hist.push_str(&format!("T{};", f + 1));
                        m.trunc_bound = m.trunc_bound.max(f + 1);
                        let r = wal.as_mut().unwrap().truncate_before(f + 1).await;
                        sim::log(format!("truncate_before({}) -> {:?}", f + 1, r.as_ref().map_err(|e| e.to_string())));
                    }
                }
                6 => {
                    m.hist.push_str("O;");
                    drop(wal.take());
                    wal = reopen_and_check(&cfg, &mut m, None, &format!("clean reopen at step {step}")).await;
                }
                7 | 8 => {
                    // crash during an append (random cut)
                    m.hist.push_str("X;");
                    crash_append(&cfg, &mut m, &mut wal, None, &format!("step {step}")).await;
                }
                9 => {
                    // crash inside persist_flushed_seq: 0..7 bytes of the new value reach the file
                    if m.max_acked > m.max_flushed {
                        let s = m.max_acked;
                        let n = sim::w(10) as usize;
                        m.hist.push_str(&format!("P{n};"));
                        // 0..7: that many bytes of the new value reach the disk; 8: dies before the rename; 9: right after it
                        disk::with(|d| {
                            d.die_on = match n {
                                8 => Some(("std.rename".into(), 1, 0)),
                                9 => Some(("std.rename".into(), 1, 1)),
                                _ => Some(("std.write".into(), 1, n)),
                            }
                        });
                        let r = persist_flushed_seq(std::path::Path::new(&dir), s);
                        sim::log(format!("persist_flushed_seq({s}) torn at {n} bytes -> {:?}", r.map_err(|e| e.to_string())));
                        sim::clear_crash_pending(0);
                        sim::probe("torn-flushed-seq");
                        m.crashes += 1;
                        drop(wal.take());
                        wal = reopen_and_check(&cfg, &mut m, None, &format!("reopen after torn flushed_seq at step {step}")).await;
                    }
                }
                10 => {
                    // a disk error on the next append (ENOSPC / EIO / short write)
                    // (an error in the middle of an entry is outside this property's quantifier: it is
                    // about crashes cutting the last write; ENOSPC before anything is written and legal
                    // short writes are inside it)
                    let k = sim::w(2);
                    m.hist.push_str(&format!("E{k};"));
                    disk::with(|d| match k {
                        0 => d.fail_on = Some(("write".into(), 1, libc::ENOSPC)),
                        _ => d.short_next = Some(7),
                    });
                }
                _ => {
                    // crash inside truncation (after removing the first segment)
                    if m.max_acked > 1 {
                        let s = m.max_acked;
                        m.hist.push_str("R;");
                        m.trunc_bound = m.trunc_bound.max(s);
                        disk::with(|d| d.die_on = Some(("remove".into(), 1, 0)));
                        let mut w = wal.take().unwrap();
                        let h = tokio::spawn(async move {
                            let r = w.truncate_before(s).await;
                            (r.map_err(|e| e.to_string()), w)
                        });
                        tokio::select! {
                            r = h => { if let Ok((_, w)) = r { wal = Some(w); } }
                            _ = sim::wait_crash(0) => { sim::probe("crash-inside-truncation"); m.crashes += 1; }
                        }
                        disk::with(|d| d.die_on = None);
                        if wal.is_none() {
                            wal = reopen_and_check(&cfg, &mut m, None, &format!("reopen after crash inside truncation at step {step}")).await;
                        }
                    }
                }
            }
        }
        if wal.is_none() {
            wal = reopen_and_check(&cfg, &mut m, None, "reopen").await;
        }
        if wal.is_none() {
            disk::cleanup_scratch();
            return;
        }
        // final phase: the (possibly swept) crash, then reopen / append / reopen rounds
        let rounds = if is_sweep || huge_at.is_some() { 1 } else { sim::w_range(1, 3) };
        for r in 0..rounds {
            if wal.is_none() || failed() {
                break;
            }
            let cut = if r == 0 { sweep_cut.clone() } else { None };
            crash_append(&cfg, &mut m, &mut wal, cut, &format!("final round {r}")).await;
            // appends after reopening must themselves be recoverable
            let n_after = sim::w_range(1, 2);
            for j in 0..n_after {
                if wal.is_none() {
                    break;
                }
                let id = m.next_id;
                m.next_id += 1;
                let e = RefEntry { seq: 0, id, rows: 1, slen: 3 };
                let (o, w) = do_append(&mut wal, mk_batch(id, 1, 3)).await;
                wal = w;
                if let AppendOutcome::Acked(seq) = o {
                    note_ack(&mut m, seq, e, &format!("append {j} after reopen (round {r})"));
                    sim::probe("append-after-crash-reopen");
                }
            }
            drop(wal.take());
            wal = reopen_and_check(&cfg, &mut m, None, &format!("second reopen of round {r}")).await;
        }
        sim::set_completed();
        if m.crashes > 0 {
            sim::set_nontrivial();
        }
        sim::set_extra("hist", serde_json::json!(m.hist));
        sim::with(|st| st.sched_sig ^= sim::hash_str(&m.hist));
        sim::state_sig(sim::hash_str(&format!("{}:{}:{}", m.log.len(), m.lost_prefix, m.max_flushed)));
        disk::cleanup_scratch();
    })
}

/// Crash the node inside an append. `cut`: None = drawn; Some("open") = die right after creating the
/// rotated segment; Some(n) = n bytes of header+payload reach the disk.
async fn crash_append(cfg: &WalConfig, m: &mut Model, wal: &mut Option<WriteAheadLog>, cut: Option<String>, tag: &str) {
    let (rows, slen) = (sim::w_range(1, 3) as usize, [0usize, 3, 40][sim::w(3) as usize]);
    let id = m.next_id;
    m.next_id += 1;
    let b = mk_batch(id, rows, slen);
    let total = 22 + encoded_len(&b) as u64;
    sim::set_extra("last_total", serde_json::json!(total));
    let drawn = match sim::w(6) {
        0 => sim::w(22) as u64,                  // inside the header
        1 => 22,                                  // header / payload boundary
        2 => 22 + sim::w((total - 22) as u32) as u64, // inside the payload
        3 => total,                               // complete, dies at the sync
        4 => total - 1,
        _ => u64::MAX,                            // die at open (if the append rotates), else at sync
    };
    let expect_seq = wal.as_ref().unwrap().next_seq();
    let cutv = match cut.as_deref() {
        Some("open") => u64::MAX,
        Some(n) => n.parse::<u64>().unwrap_or(0).min(total),
        None => drawn,
    };
    if cutv == u64::MAX {
        disk::with(|d| {
            d.die_on = Some(("open".into(), 1, 0));
        });
        sim::probe("armed-die-at-open");
    } else {
        disk::with(|d| {
            d.write_budget = Some(cutv);
            d.die_on = Some(("sync".into(), 1, 0));
        });
        if cutv < 22 {
            sim::probe("cut-inside-header");
        } else if cutv == 22 {
            sim::probe("cut-at-header-payload-boundary");
        } else if cutv < total {
            sim::probe("cut-inside-payload");
        } else {
            sim::probe("cut-after-complete-write");
        }
    }
    let bytes0 = disk::with(|d| d.bytes_written);
    let (o, w) = do_append(wal, b).await;
    *wal = w;
    let written = disk::with(|d| d.bytes_written) - bytes0;
    disk::with(|d| {
        d.write_budget = None;
        d.die_on = None;
    });
    let e = RefEntry { seq: expect_seq, id, rows, slen };
    match o {
        AppendOutcome::Acked(seq) => {
            // the armed death did not trigger (e.g. die-at-open without rotation): a normal append
            note_ack(m, seq, e, tag);
        }
        AppendOutcome::Failed(er) => sim::log(format!("{tag}: append failed: {er}")),
        AppendOutcome::Crashed => {
            m.crashes += 1;
            let complete = written >= total;
            sim::log(format!("{tag}: crashed inside append of seq {expect_seq}: {written}/{total} bytes on disk"));
            *wal = reopen_and_check(cfg, m, Some((e, complete)), &format!("reopen after crash ({tag}, {written}/{total} bytes of seq {expect_seq} written)")).await;
        }
    }
}

/// Systematic sweep: for the first N seeds, one run per cut offset of the final append.
fn sweep_phase(co: &mut Coord) {
    let n_hist = if co.tier == "quick" { 12 } else { 150 };
    let mut base_specs = Vec::new();
    for i in 0..n_hist as u64 {
        let mut s = co.spec(1_000_000 + i, "cut:0");
        s.want_tapes = true;
        base_specs.push(s);
    }
    let outs = co.exec(&base_specs, false);
    let mut specs = Vec::new();
    for (s, o) in base_specs.iter().zip(outs.iter()) {
        if let Some(o) = o {
            let total = o.extra.get("last_total").and_then(|v| v.as_u64()).unwrap_or(0);
            if total == 0 {
                continue;
            }
            for k in 0..=total {
                let mut x = s.clone();
                x.variant = format!("cut:{k}");
                x.want_tapes = false;
                specs.push(x);
            }
            let mut x = s.clone();
            x.variant = "cut:open".into();
            x.want_tapes = false;
            specs.push(x);
        }
    }
    if let Some(f) = specs.first_mut() {
        f.want_trace = true;
    }
    co.run_batch(specs, "sweep-every-cut-offset");
}
