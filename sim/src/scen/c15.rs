//! C15 — dual-write routes each row to exactly one new shard; split-time reads stay exact.

use super::common::*;
use super::ingest::*;
use super::sql::*;
use crate::core::coord::PropDef;
use crate::core::run::{RunSpec, ScenFut};
use crate::core::sim;
use crate::core::store::SimStore;
use cardinalsin::ingester::{ChunkMetadata, Ingester, IngesterConfig, ParquetWriter};
use cardinalsin::metadata::{LocalMetadataClient, MetadataClient, ObjectStoreMetadataClient, ObjectStoreMetadataConfig};
use cardinalsin::query::{QueryConfig, QueryNode};
use cardinalsin::schema::MetricSchema;
use cardinalsin::sharding::{ShardKey, ShardSplitter, SplitPhase};
use cardinalsin::StorageConfig;
use object_store::memory::InMemory;
use object_store::path::Path;
use object_store::{ObjectStore, PutPayload};
use std::collections::BTreeMap;
use std::sync::Arc;

pub static DEF: PropDef = PropDef {
    id: "C15",
    level: "exploration",
    engine: "query",
    rule: "one run = a real Ingester whose shard (the id the ingester itself derives for the batches: tenant, metric hash, coarse time) has a split state in the DualWrite or Backfill phase, set through the real start_split / update_split_progress, on either catalog backend; in half of the runs the old shard also has 1..3 historical chunks and, in the Backfill phase, the real ShardSplitter::run_backfill copies them before / between / after the writes (a third of those back-fills is interrupted by one storage error, so reads see a partial back-fill); 4..10 accepted batches of 1..5 rows with Int64 timestamps below / at / above the split point, several series per (timestamp, metric) differing in labels or value, and genuine exact duplicates; then 4..8 queries (projections with and without the key columns, count/sum/min/max, GROUP BY) through a real QueryNode while the split is active (a third of the runs then run one real compaction cycle, still inside the phase, and ask again); routing oracle: ids in chunks under new shard A == accepted rows with ts < split, under B ts >= split, each once per accepted write; read oracle: answer == the same SQL on a MemTable of the historical + accepted rows; back-fill copies hold only historical rows of their side, once; distinct = distinct (dataset, query text) hash; non-trivial = completed AND rows fell on both sides of the split point",
    quick_runs: 1000,
    thorough_runs: 8000,
    run_cap_ms: 120_000,
    scen,
    extra_phase: None,
    real: &["Ingester::write -> write_with_split_awareness (dual write, split_batch_by_key, write_to_shard)", "MetadataClient::{start_split, update_split_progress, has_active_split}", "ShardSplitter::run_backfill (copies of historical chunks)", "QueryNode::query (split-time exclusion of new-shard chunks)"],
    stub: &["S3 = InMemory behind SimStore"],
    assumptions: &["Int64 timestamps (the dual-write path rejects other types with an error, i.e. such rows are not accepted)", "all rows of a batch share the metric of its first row (the ingester derives one shard id per batch)"],
};

fn shard_of(metric: &str, ts: i64) -> String {
    let k = ShardKey::new(0, metric, ts);
    format!("shard-{:x}", u64::from_be_bytes(k.to_bytes()[0..8].try_into().unwrap()))
}

fn scen(_spec: RunSpec) -> ScenFut {
    Box::pin(async move {
        let inner = Arc::new(InMemory::new());
        let store: Arc<dyn ObjectStore> = SimStore::new(inner.clone(), 0);
        let use_local = sim::w_bool(50);
        let meta: Arc<dyn MetadataClient> = if use_local {
            Arc::new(LocalMetadataClient::new())
        } else {
            Arc::new(ObjectStoreMetadataClient::new(store.clone(), ObjectStoreMetadataConfig::default()))
        };
        sim::set_cfg(|c| {
            c.adv_pct = 0;
            c.max_grants = 300_000;
        });
        let now = sim::wall_ns();
        // one run in six splits at the epoch: rows before 1970 (negative timestamps) belong below the split point
        let at_epoch = sim::w(6) == 5;
        let split_ts = if at_epoch { 0 } else { now - 20 * 60 * SEC };
        if at_epoch {
            sim::probe("split-point-at-the-epoch");
        }
        let metric = ["cpu", "mem"][sim::w(2) as usize];
        let shard = shard_of(metric, split_ts);
        let (na, nb) = ("newshard-aaaa".to_string(), "newshard-bbbb".to_string());
        // historical chunks of the old shard (stored under a path that carries its id, which is how the
        // back-fill finds them); present in a part of the runs
        let mut next_id = 1i64;
        let mut historical: Vec<Row> = Vec::new();
        let n_hist = if sim::w_bool(50) { sim::w_range(1, 3) } else { 0 };
        let pw = ParquetWriter::new();
        for k in 0..n_hist {
            let n = sim::w_range(1, 4);
            let rows: Vec<Row> = (0..n)
                .map(|_| {
                    let ts = match sim::w(6) {
                        0 => split_ts,
                        1 => split_ts - 1,
                        2 | 3 => split_ts - (1 + sim::w(300)) as i64 * SEC,
                        _ => split_ts + (1 + sim::w(300)) as i64 * SEC,
                    };
                    let r = Row { id: next_id, ts, metric: metric.to_string(), host: [None, Some("a".to_string()), Some("b".to_string())][sim::w(3) as usize].clone(), vi: Some(sim::w(5) as i64), vf: None, vu: None };
                    next_id += 1;
                    r
                })
                .collect();
            let bytes = pw.write_batch(&batch(1, &rows)).unwrap();
            let path = format!("default/data/shard={shard}/hist_{k}.parquet");
            store.put(&Path::from(path.clone()), PutPayload::from(bytes.clone())).await.unwrap();
            let (mn, mx) = (rows.iter().map(|r| r.ts).min().unwrap(), rows.iter().map(|r| r.ts).max().unwrap());
            meta.register_chunk(&path, &ChunkMetadata { path: path.clone(), min_timestamp: mn, max_timestamp: mx, row_count: rows.len() as u64, size_bytes: bytes.len() as u64 }).await.unwrap();
            historical.extend(rows);
        }
        let mut icfg = IngesterConfig::default();
        icfg.wal.enabled = false;
        icfg.flush_row_count = [1usize, 3, 100][sim::w(3) as usize];
        let ing = Ingester::new(icfg, store.clone(), meta.clone(), StorageConfig::default(), MetricSchema::default_metrics());
        // in half of the runs the same ingester has already written to this shard just before the split starts
        // (whatever it remembers about the shard from then must not outlive the start of the split)
        let mut pre_rows: Vec<Row> = Vec::new();
        if sim::w_bool(50) {
            for _ in 0..sim::w_range(1, 2) {
                let ts = split_ts + (sim::w(200) as i64 - 100) * SEC;
                let r = Row { id: next_id, ts, metric: metric.to_string(), host: None, vi: Some(sim::w(5) as i64), vf: None, vu: None };
                next_id += 1;
                match ing.write(batch(1, std::slice::from_ref(&r))).await {
                    Ok(()) => pre_rows.push(r),
                    Err(e) => {
                        sim::with(|st| st.abort = Some(format!("pre-split write: {e}")));
                        return;
                    }
                }
            }
            sim::probe("ingester-wrote-to-the-shard-just-before-the-split");
        }
        // a third of the object-store runs: the query node is another process - its own catalog client - that has been
        // answering queries before the split began (one a minute ago, one just now); what it remembers from then must
        // not make it read the copies
        let early_qn: Option<QueryNode> = if !use_local && sim::w(3) == 2 {
            let qmeta: Arc<dyn MetadataClient> = Arc::new(ObjectStoreMetadataClient::new(SimStore::new(inner.clone(), 1), ObjectStoreMetadataConfig::default()));
            let mut qc = QueryConfig::default();
            qc.l2_cache_dir = None;
            match QueryNode::new(qc, SimStore::new(inner.clone(), 1), qmeta, StorageConfig::default()).await {
                Ok(q) => {
                    let w = format!("SELECT count(*) AS c FROM metrics WHERE timestamp >= {} AND timestamp <= {}", split_ts - 400 * SEC, split_ts + 400 * SEC);
                    let _ = q.query(&w).await;
                    tokio::time::sleep(std::time::Duration::from_secs(58)).await;
                    let _ = q.query(&w).await;
                    sim::probe("query-node-of-another-process-warm-before-the-split");
                    Some(q)
                }
                Err(_) => None,
            }
        } else {
            None
        };
        if let Err(e) = meta.start_split(&shard, vec![na.clone(), nb.clone()], split_ts.to_be_bytes().to_vec()).await {
            sim::with(|st| st.abort = Some(format!("start_split: {e}")));
            return;
        }
        let phase = if sim::w_bool(50) { SplitPhase::DualWrite } else { SplitPhase::Backfill };
        meta.update_split_progress(&shard, 0.0, phase).await.expect("phase");
        // the real back-fill (in the Backfill phase, when there is history): before, in the middle of, or after the writes;
        // a third of these runs interrupt it once with a storage error, so the reads see a partial back-fill
        let backfill_at: Option<u32> = if phase == SplitPhase::Backfill && n_hist > 0 { Some(sim::w(3)) } else { None };
        let interrupt_backfill = backfill_at.is_some() && sim::w(3) == 2;
        let fail_at = sim::w(16) as u64;
        let run_backfill = |meta: Arc<dyn MetadataClient>, store: Arc<dyn ObjectStore>, shard: String, na: String, nb: String| async move {
            let sp = ShardSplitter::new(meta, store);
            if interrupt_backfill {
                let at = sim::store_gate_ord() + fail_at;
                sim::set_cfg(|c| c.forced = Some((at, crate::core::sim::Fault::FailBefore)));
            }
            let r = sp.run_backfill(&shard, &[na, nb], &split_ts.to_be_bytes()).await;
            sim::set_cfg(|c| c.forced = None);
            match r {
                Ok(()) => sim::probe("backfill-ran-to-completion"),
                Err(e) => {
                    sim::probe("backfill-interrupted");
                    sim::log(format!("backfill stopped: {e}"));
                }
            }
        };
        // workload
        let mut accepted: Vec<Row> = Vec::new();
        let nb_batches = sim::w_range(4, 10);
        let mut prev_row: Option<Row> = None;
        for bi in 0..nb_batches {
            if backfill_at == Some(0) && bi == 0 || backfill_at == Some(1) && bi == nb_batches / 2 {
                run_backfill(meta.clone(), store.clone(), shard.clone(), na.clone(), nb.clone()).await;
            }
            let n = sim::w_range(1, 5);
            let mut rows: Vec<Row> = Vec::new();
            for _ in 0..n {
                let kind = sim::w(8);
                let ts = match kind {
                    0 => split_ts,
                    1 => split_ts - 1,
                    2 => split_ts + 1,
                    3 | 4 => split_ts - (1 + sim::w(300)) as i64 * SEC,
                    _ => split_ts + (1 + sim::w(300)) as i64 * SEC,
                };
                let mut r = Row {
                    id: next_id,
                    ts,
                    metric: metric.to_string(),
                    host: [None, Some("a".to_string()), Some("b".to_string())][sim::w(3) as usize].clone(),
                    vi: Some(sim::w(5) as i64),
                    vf: None,
                    vu: None,
                };
                // a second series at the same (timestamp, metric): same key columns, other label / value
                if let (Some(p), true) = (&prev_row, sim::w(4) == 3) {
                    r.ts = p.ts;
                    sim::probe("several-series-per-timestamp-and-metric");
                }
                // a genuine exact duplicate of the previous row (everything equal except our bookkeeping id)
                next_id += 1;
                prev_row = Some(r.clone());
                rows.push(r);
            }
            if at_epoch {
                // the ingester derives the shard id from the first row; pre-epoch and post-epoch instants belong to
                // different shards, so the first row of every batch is kept on the split shard's side of the epoch
                match rows.iter().position(|r| r.ts >= 0) {
                    Some(i) => rows.swap(0, i),
                    None => rows[0].ts = split_ts,
                }
            }
            let b = batch(1, &rows);
            match ing.write(b).await {
                Ok(()) => accepted.extend(rows),
                Err(e) => {
                    sim::violation("C15/dual-write-rejected", format!("write failed during {:?}: {e}", phase));
                    return;
                }
            }
        }
        if backfill_at == Some(2) {
            run_backfill(meta.clone(), store.clone(), shard.clone(), na.clone(), nb.clone()).await;
        }
        // flush what is still buffered for the old shard
        ing.shutdown_token().cancel();
        ing.run_flush_timer().await;
        let below = accepted.iter().filter(|r| r.ts < split_ts).count();
        let above = accepted.len() - below;
        // ---- routing oracle ----
        let chunks = meta.list_chunks().await.unwrap_or_default();
        let mut in_a: BTreeMap<i64, u32> = BTreeMap::new();
        let mut in_b: BTreeMap<i64, u32> = BTreeMap::new();
        let mut in_old: BTreeMap<i64, u32> = BTreeMap::new();
        let mut bf_a: BTreeMap<i64, u32> = BTreeMap::new();
        let mut bf_b: BTreeMap<i64, u32> = BTreeMap::new();
        for c in &chunks {
            let bs = match read_chunk(&inner, &c.chunk_path).await {
                Ok(b) => b,
                Err(e) => {
                    sim::violation("C15/chunk-unreadable", e);
                    continue;
                }
            };
            let target = if c.chunk_path.starts_with(&format!("{na}/backfill_")) {
                &mut bf_a
            } else if c.chunk_path.starts_with(&format!("{nb}/backfill_")) {
                &mut bf_b
            } else if c.chunk_path.contains(&format!("shard={na}")) {
                &mut in_a
            } else if c.chunk_path.contains(&format!("shard={nb}")) {
                &mut in_b
            } else {
                &mut in_old
            };
            for b in &bs {
                for id in ids_of(b) {
                    *target.entry(id).or_insert(0) += 1;
                }
            }
        }
        let want_a: BTreeMap<i64, u32> = accepted.iter().filter(|r| r.ts < split_ts).map(|r| (r.id, 1)).collect();
        let want_b: BTreeMap<i64, u32> = accepted.iter().filter(|r| r.ts >= split_ts).map(|r| (r.id, 1)).collect();
        let want_old: BTreeMap<i64, u32> = accepted.iter().chain(historical.iter()).chain(pre_rows.iter()).map(|r| (r.id, 1)).collect();
        // back-fill copies: never a row of the wrong side, never a row twice, never a row that is not historical
        // (completeness of the back-fill is C14's subject; here it may have been interrupted)
        for (side, got, lower) in [("A", &bf_a, true), ("B", &bf_b, false)] {
            for (id, n) in got {
                let ok = historical.iter().any(|r| r.id == *id && ((r.ts < split_ts) == lower)) && *n == 1;
                if !ok {
                    sim::violation("C15/routing/backfill-copy-wrong", format!("back-fill copy under new shard {side} holds id {id} x{n}: not a historical row of that side exactly once"));
                }
            }
        }
        if !bf_a.is_empty() || !bf_b.is_empty() {
            sim::probe("reads-with-backfill-copies-present");
        }
        if in_a != want_a || in_b != want_b {
            let at_split_wrong = accepted.iter().any(|r| r.ts == split_ts && in_a.contains_key(&r.id));
            sim::violation(
                if at_split_wrong { "C15/routing/row-at-split-point-in-lower-shard" } else { "C15/routing/wrong-shard-or-count" },
                format!("new shard A holds ids {:?} (expected {:?}); new shard B holds {:?} (expected {:?})", in_a, want_a.keys().collect::<Vec<_>>(), in_b, want_b.keys().collect::<Vec<_>>()),
            );
        }
        if in_old != want_old {
            sim::violation("C15/routing/old-shard-copy-wrong", format!("old-shard chunks hold {:?}, expected every accepted row once", in_old));
        }
        // ---- read oracle ----
        let mut qc = QueryConfig::default();
        qc.l2_cache_dir = None;
        let qn = match early_qn {
            Some(q) => {
                // 3 s after the split began (61 s after this node last loaded the catalog)
                tokio::time::sleep(std::time::Duration::from_secs(3)).await;
                q
            }
            None => match QueryNode::new(qc, store.clone(), meta.clone(), StorageConfig::default()).await {
                Ok(q) => q,
                Err(e) => {
                    sim::with(|st| st.abort = Some(format!("query node: {e}")));
                    return;
                }
            },
        };
        let everything: Vec<Row> = historical.iter().chain(pre_rows.iter()).chain(accepted.iter()).cloned().collect();
        let all = batch(1, &everything);
        let lo = split_ts - 400 * SEC;
        let hi = split_ts + 400 * SEC;
        let w = format!("timestamp >= {lo} AND timestamp <= {hi}");
        let forms: Vec<(&str, String)> = vec![
            ("keys+labels", format!("SELECT timestamp, metric_name, host, value_i64, id FROM metrics WHERE {w}")),
            ("keys-only", format!("SELECT timestamp, metric_name FROM metrics WHERE {w}")),
            ("no-key-columns", format!("SELECT value_i64, host, id FROM metrics WHERE {w}")),
            ("aggregate", format!("SELECT count(*) AS c, sum(value_i64) AS s FROM metrics WHERE {w}")),
            ("group-by", format!("SELECT host, count(*) AS c FROM metrics WHERE {w} GROUP BY host")),
            ("narrow", format!("SELECT id, timestamp, metric_name FROM metrics WHERE timestamp >= {} AND timestamp <= {}", split_ts - 1, split_ts + 1)),
        ];
        let nq = sim::w_range(4, 6) as usize;
        let mut hist = format!("{}:{}:{:?}:", accepted.len(), historical.len(), backfill_at);
        // a third of the runs: a real compaction cycle while the split is still in its phase, then the same statements again
        let compact_during_split = sim::w(3) == 2;
        for round in 0..2 {
        if round == 1 {
            if !compact_during_split {
                break;
            }
            let ccfg = cardinalsin::compactor::CompactorConfig { l0_merge_threshold: 2, sharding_enabled: false, gc_grace_period: std::time::Duration::from_secs(300), retention_days: 36_500, ..Default::default() }; // (rows at the epoch are not to be retired)
            let comp = cardinalsin::compactor::Compactor::new(ccfg, store.clone(), meta.clone(), StorageConfig::default(), Arc::new(cardinalsin::sharding::ShardMonitor::new(cardinalsin::sharding::HotShardConfig::default())));
            let before = meta.list_chunks().await.map(|c| c.len()).unwrap_or(0);
            if let Err(e) = comp.run_compaction_cycle().await {
                sim::log(format!("compaction cycle failed: {e}"));
            }
            let after = meta.list_chunks().await.map(|c| c.len()).unwrap_or(0);
            if after != before {
                sim::probe("compaction-cycle-merged-chunks-during-the-split");
            }
            // the query node's catalog view may be up to 60 s stale by design
            tokio::time::sleep(std::time::Duration::from_secs(61)).await;
        }
        for (name, sql) in forms.iter().take(nq) {
            hist.push_str(sql);
            let want = match reference(sql, &all).await {
                Ok(w) => result_multiset(&w),
                Err(e) => {
                    sim::log(format!("reference failed: {e}"));
                    continue;
                }
            };
            match qn.query(sql).await {
                Ok(g) => {
                    let got = result_multiset(&g);
                    if got != want {
                        let (wn, gn) = (want.values().sum::<u32>(), got.values().sum::<u32>());
                        let cause = match *name {
                            "aggregate" | "group-by" => "aggregate-over-copies",
                            "no-key-columns" => "projection-without-key-columns",
                            _ if gn < wn => "collapsed-distinct-series",
                            _ => "copies-not-suppressed",
                        };
                        let cause = if round == 1 { "after-compaction-during-the-split" } else { cause };
                        sim::violation(format!("C15/split-time-read-differs/{cause}"), format!("[{:?}, {name}{}] {sql} :: {}", phase, if round == 1 { ", after a compaction cycle" } else { "" }, describe_diff(&want, &got)));
                    }
                }
                Err(e) => sim::violation("C15/split-time-read-error", format!("{sql} :: {e}")),
            }
        }
        }
        sim::set_completed();
        sim::set_extra("strict_nontrivial", serde_json::json!(below > 0 && above > 0));
        sim::with(|st| st.sched_sig ^= sim::hash_str(&hist));
    })
}
