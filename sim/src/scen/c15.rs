//! C15 — dual-write routes each row to exactly one new shard; split-time reads stay exact.

use super::common::*;
use super::ingest::*;
use super::sql::*;
use crate::core::coord::PropDef;
use crate::core::run::{RunSpec, ScenFut};
use crate::core::sim;
use crate::core::store::SimStore;
use cardinalsin::ingester::{Ingester, IngesterConfig};
use cardinalsin::metadata::{LocalMetadataClient, MetadataClient, ObjectStoreMetadataClient, ObjectStoreMetadataConfig};
use cardinalsin::query::{QueryConfig, QueryNode};
use cardinalsin::schema::MetricSchema;
use cardinalsin::sharding::{ShardKey, SplitPhase};
use cardinalsin::StorageConfig;
use object_store::memory::InMemory;
use object_store::ObjectStore;
use std::collections::BTreeMap;
use std::sync::Arc;

pub static DEF: PropDef = PropDef {
    id: "C15",
    level: "exploration",
    engine: "query",
    rule: "one run = a real Ingester whose shard (the id the ingester itself derives for the batches: tenant, metric hash, coarse time) has a split state in the DualWrite or Backfill phase, set through the real start_split / update_split_progress, on either catalog backend; 4..10 accepted batches of 1..5 rows with Int64 timestamps below / at / above the split point, several series per (timestamp, metric) differing in labels or value, and genuine exact duplicates; then 4..8 queries (projections with and without the key columns, count/sum/min/max, GROUP BY) through a real QueryNode while the split is active; routing oracle: ids in chunks under new shard A == accepted rows with ts < split, under B ts >= split, each once per accepted write; read oracle: answer == the same SQL on a MemTable of the accepted rows; distinct = distinct (dataset, query text) hash; non-trivial = completed AND rows fell on both sides of the split point",
    quick_runs: 1000,
    thorough_runs: 8000,
    run_cap_ms: 120_000,
    scen,
    extra_phase: None,
    real: &["Ingester::write -> write_with_split_awareness (dual write, split_batch_by_key, write_to_shard)", "MetadataClient::{start_split, update_split_progress, has_active_split}", "QueryNode::query incl. dedup::dedup_batches"],
    stub: &["S3 = InMemory behind SimStore"],
    assumptions: &["Int64 timestamps (the dual-write path rejects other types with an error, i.e. such rows are not accepted)", "all rows of a batch share the metric of its first row (the ingester derives one shard id per batch)"],
};

fn shard_of(metric: &str, ts: i64) -> String {
    let k = ShardKey::new(0, metric, ts);
    format!("shard-{:x}", u64::from_be_bytes(k.to_bytes()[0..8].try_into().unwrap()))
}

fn scen(_spec: RunSpec) -> ScenFut {
    Box::pin(async move {
        let inner = Arc::new(InMemory::new());
        let store: Arc<dyn ObjectStore> = SimStore::new(inner.clone(), 0);
        let use_local = sim::w_bool(50);
        let meta: Arc<dyn MetadataClient> = if use_local {
            Arc::new(LocalMetadataClient::new())
        } else {
            Arc::new(ObjectStoreMetadataClient::new(store.clone(), ObjectStoreMetadataConfig::default()))
        };
        sim::set_cfg(|c| {
            c.adv_pct = 0;
            c.max_grants = 300_000;
        });
        let now = sim::wall_ns();
        let split_ts = now - 20 * 60 * SEC;
        let metric = ["cpu", "mem"][sim::w(2) as usize];
        let shard = shard_of(metric, split_ts);
        let (na, nb) = ("newshard-aaaa".to_string(), "newshard-bbbb".to_string());
        if let Err(e) = meta.start_split(&shard, vec![na.clone(), nb.clone()], split_ts.to_be_bytes().to_vec()).await {
            sim::with(|st| st.abort = Some(format!("start_split: {e}")));
            return;
        }
        let phase = if sim::w_bool(50) { SplitPhase::DualWrite } else { SplitPhase::Backfill };
        meta.update_split_progress(&shard, 0.0, phase).await.expect("phase");
        let mut icfg = IngesterConfig::default();
        icfg.wal.enabled = false;
        icfg.flush_row_count = [1usize, 3, 100][sim::w(3) as usize];
        let ing = Ingester::new(icfg, store.clone(), meta.clone(), StorageConfig::default(), MetricSchema::default_metrics());
        // workload
        let mut next_id = 1i64;
        let mut accepted: Vec<Row> = Vec::new();
        let nb_batches = sim::w_range(4, 10);
        let mut prev_row: Option<Row> = None;
        for _ in 0..nb_batches {
            let n = sim::w_range(1, 5);
            let mut rows: Vec<Row> = Vec::new();
            for _ in 0..n {
                let kind = sim::w(8);
                let ts = match kind {
                    0 => split_ts,
                    1 => split_ts - 1,
                    2 => split_ts + 1,
                    3 | 4 => split_ts - (1 + sim::w(300)) as i64 * SEC,
                    _ => split_ts + (1 + sim::w(300)) as i64 * SEC,
                };
                let mut r = Row {
                    id: next_id,
                    ts,
                    metric: metric.to_string(),
                    host: [None, Some("a".to_string()), Some("b".to_string())][sim::w(3) as usize].clone(),
                    vi: Some(sim::w(5) as i64),
                    vf: None,
                    vu: None,
                };
                // a second series at the same (timestamp, metric): same key columns, other label / value
                if let (Some(p), true) = (&prev_row, sim::w(4) == 3) {
                    r.ts = p.ts;
                    sim::probe("several-series-per-timestamp-and-metric");
                }
                // a genuine exact duplicate of the previous row (everything equal except our bookkeeping id)
                next_id += 1;
                prev_row = Some(r.clone());
                rows.push(r);
            }
            let b = batch(1, &rows);
            match ing.write(b).await {
                Ok(()) => accepted.extend(rows),
                Err(e) => {
                    sim::violation("C15/dual-write-rejected", format!("write failed during {:?}: {e}", phase));
                    return;
                }
            }
        }
        // flush what is still buffered for the old shard
        ing.shutdown_token().cancel();
        ing.run_flush_timer().await;
        let below = accepted.iter().filter(|r| r.ts < split_ts).count();
        let above = accepted.len() - below;
        // ---- routing oracle ----
        let chunks = meta.list_chunks().await.unwrap_or_default();
        let mut in_a: BTreeMap<i64, u32> = BTreeMap::new();
        let mut in_b: BTreeMap<i64, u32> = BTreeMap::new();
        let mut in_old: BTreeMap<i64, u32> = BTreeMap::new();
        for c in &chunks {
            let bs = match read_chunk(&inner, &c.chunk_path).await {
                Ok(b) => b,
                Err(e) => {
                    sim::violation("C15/chunk-unreadable", e);
                    continue;
                }
            };
            let target = if c.chunk_path.contains(&format!("shard={na}")) {
                &mut in_a
            } else if c.chunk_path.contains(&format!("shard={nb}")) {
                &mut in_b
            } else {
                &mut in_old
            };
            for b in &bs {
                for id in ids_of(b) {
                    *target.entry(id).or_insert(0) += 1;
                }
            }
        }
        let want_a: BTreeMap<i64, u32> = accepted.iter().filter(|r| r.ts < split_ts).map(|r| (r.id, 1)).collect();
        let want_b: BTreeMap<i64, u32> = accepted.iter().filter(|r| r.ts >= split_ts).map(|r| (r.id, 1)).collect();
        let want_old: BTreeMap<i64, u32> = accepted.iter().map(|r| (r.id, 1)).collect();
        if in_a != want_a || in_b != want_b {
            let at_split_wrong = accepted.iter().any(|r| r.ts == split_ts && in_a.contains_key(&r.id));
            sim::violation(
                if at_split_wrong { "C15/routing/row-at-split-point-in-lower-shard" } else { "C15/routing/wrong-shard-or-count" },
                format!("new shard A holds ids {:?} (expected {:?}); new shard B holds {:?} (expected {:?})", in_a, want_a.keys().collect::<Vec<_>>(), in_b, want_b.keys().collect::<Vec<_>>()),
            );
        }
        if in_old != want_old {
            sim::violation("C15/routing/old-shard-copy-wrong", format!("old-shard chunks hold {:?}, expected every accepted row once", in_old));
        }
        // ---- read oracle ----
        let mut qc = QueryConfig::default();
        qc.l2_cache_dir = None;
        let qn = match QueryNode::new(qc, store.clone(), meta.clone(), StorageConfig::default()).await {
            Ok(q) => q,
            Err(e) => {
                sim::with(|st| st.abort = Some(format!("query node: {e}")));
                return;
            }
        };
        let all = batch(1, &accepted);
        let lo = split_ts - 400 * SEC;
        let hi = split_ts + 400 * SEC;
        let w = format!("timestamp >= {lo} AND timestamp <= {hi}");
        let forms: Vec<(&str, String)> = vec![
            ("keys+labels", format!("SELECT timestamp, metric_name, host, value_i64, id FROM metrics WHERE {w}")),
            ("keys-only", format!("SELECT timestamp, metric_name FROM metrics WHERE {w}")),
            ("no-key-columns", format!("SELECT value_i64, host, id FROM metrics WHERE {w}")),
            ("aggregate", format!("SELECT count(*) AS c, sum(value_i64) AS s FROM metrics WHERE {w}")),
            ("group-by", format!("SELECT host, count(*) AS c FROM metrics WHERE {w} GROUP BY host")),
            ("narrow", format!("SELECT id, timestamp, metric_name FROM metrics WHERE timestamp >= {} AND timestamp <= {}", split_ts - 1, split_ts + 1)),
        ];
        let nq = sim::w_range(4, 6) as usize;
        let mut hist = format!("{}:", accepted.len());
        for (name, sql) in forms.iter().take(nq) {
            hist.push_str(sql);
            let want = match reference(sql, &all).await {
                Ok(w) => result_multiset(&w),
                Err(e) => {
                    sim::log(format!("reference failed: {e}"));
                    continue;
                }
            };
            match qn.query(sql).await {
                Ok(g) => {
                    let got = result_multiset(&g);
                    if got != want {
                        let (wn, gn) = (want.values().sum::<u32>(), got.values().sum::<u32>());
                        let cause = match *name {
                            "aggregate" | "group-by" => "aggregate-over-copies",
                            "no-key-columns" => "projection-without-key-columns",
                            _ if gn < wn => "collapsed-distinct-series",
                            _ => "copies-not-suppressed",
                        };
                        sim::violation(format!("C15/split-time-read-differs/{cause}"), format!("[{:?}, {name}] {sql} :: {}", phase, describe_diff(&want, &got)));
                    }
                }
                Err(e) => sim::violation("C15/split-time-read-error", format!("{sql} :: {e}")),
            }
        }
        sim::set_completed();
        sim::set_extra("strict_nontrivial", serde_json::json!(below > 0 && above > 0));
        sim::with(|st| st.sched_sig ^= sim::hash_str(&hist));
    })
}
